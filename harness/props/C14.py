# -*- coding: utf-8 -*-
"""C14 - The running server archives each completed session once, in the chosen format."""
import json
import os
import shutil
import socket
import subprocess
import sys
import tempfile
import threading
import time

from harness import common, gens, recv, oracles
from harness.common import Stream, hexb

PID = "C14"
LEAN_MODULES = ["Astm.Proofs.C14", "Astm.State.C14", "Astm.Surface.C14"]
THEOREMS = [
    "Astm.C14.server_wiring", "Astm.C14.queue_items_of_connection", "Astm.C14.every_item_has_its_own_file",
    "Astm.C14.ascii_payload_stored_verbatim", "Astm.C14.example_two_connections",
    "Astm.C04.isolation", "Astm.C03.deliveries_eq_spec", "Astm.C16.distinct_files_exact_bytes",
    "Astm.C14.anchored_code_keeps_no_other_state", "Astm.C14.anchored_code_keeps_its_signatures",
]
RULE = ("runs of the real server process (python -m senaite.astm.server -o <dir> -m <format>) on loopback TCP with 3-8 "
        "concurrent clients and seeded pacing: complete sessions (1-3 messages, some multi-frame), sessions with a "
        "corrupted frame that is retransmitted, abandoned sessions (disconnect mid-transfer / unfinished multi-frame run), "
        "ENQ-EOT keep-alives; formats astm, lis2a, json; the directory listing after the run is compared with the "
        "multiset of renderings the Lean model computes for each connection's own events; non-trivial = >= 2 concurrent "
        "clients and >= 1 incomplete session")
LEVEL_NOTE = ("proof (partial): queue items of a connection = deliveries of its completed sessions under every interleaving "
              "(C03 + C04), every dispatched item gets its own file with its bytes under every writer schedule (C16), wiring "
              "facts decided on server.py; process start-up, sockets, asyncio.to_thread and the file system are not modelled")
ASSUMPTIONS = ["one client write arrives as one data_received call (clients wait for the reply before the next unit)",
               "asyncio.Queue is FIFO; asyncio.to_thread runs write_message to completion"]


def free_port():
    s = socket.socket()
    s.bind(("127.0.0.1", 0))
    p = s.getsockname()[1]
    s.close()
    return p


def start_server(outdir, fmt, port, tmp):
    env = dict(os.environ)
    cmd = ["/venv/bin/python", "-m", "senaite.astm.server", "-l", "127.0.0.1", "-p", str(port), "-o", outdir,
           "--logfile", os.path.join(tmp, "server.log")]
    if fmt is not None:
        cmd += ["-m", fmt]
    proc = subprocess.Popen(cmd, cwd=tmp, stdout=subprocess.DEVNULL, stderr=subprocess.DEVNULL, env=env)
    deadline = time.time() + 15
    while time.time() < deadline:
        try:
            socket.create_connection(("127.0.0.1", port), timeout=0.2).close()
            return proc
        except OSError:
            if proc.poll() is not None:
                break
            time.sleep(0.05)
    proc.kill()
    raise RuntimeError("server did not start")


def client(port, script, pace, log, barrier=None):
    """script: list of ('send', bytes) | ('barrier',) | ('close',) ; waits for a reply after every send except EOT"""
    try:
        s = socket.create_connection(("127.0.0.1", port), timeout=5)
        s.settimeout(10)
        for step in script:
            if step[0] == "barrier":
                if barrier is not None:
                    try:
                        barrier.wait(20)
                    except threading.BrokenBarrierError:
                        pass
                continue
            time.sleep(pace())
            if step[0] == "send":
                s.sendall(step[1])
                if step[1][:1] != b"\x04":
                    try:
                        log.append(s.recv(100))
                    except socket.timeout:
                        log.append(b"<timeout>")
                else:
                    time.sleep(0.02)
            else:
                break
        time.sleep(0.05)
        s.close()
    except Exception as e:  # noqa
        log.append(b"<error %s>" % repr(e).encode())


def lower_cs(f):
    body = f.rstrip(b"\r\n")
    return body[:-2] + body[-2:].lower() + f[len(body):]


def session_script(r, conformant, force_lower=False, burst=False):
    """returns (script, events, kinds) ; events = what the connection's protocol instance receives.
    A connection carries 1-3 segments one after the other: complete sessions, sessions with damaged frames that are
    retransmitted, transfers given up with EOT in the middle of a multi-frame run, empty transfers; it may end by
    disconnecting in the middle of a transfer.  burst: the last EOT is sent when all clients have reached it."""
    from harness.props import C03
    script, events, kinds = [], [], []

    def add(d):
        script.append(("send", d))
        events.append(("d", d))

    def one_session(retransmit=False, last=False):
        add(gens.ENQ)
        for mi in range(r.choice([1, 1, 2, 3])):
            text = C03.json_conformant_text(r) if conformant else None
            if conformant and mi == 0 and r.random() < 0.5:
                text = hub_message(r)[0]       # an instrument (or unknown model) behind a shared middleware name
            frames, _ = gens.message_frames(r, seq=r.randrange(8), text=text, parts=r.choice([1, 1, 2, 3]))
            if force_lower:
                frames = [lower_cs(f) for f in frames]
            for fi, f in enumerate(frames):
                if retransmit and (r.random() < 0.5 or (fi > 0 and fi < len(frames) - 1) or fi == len(frames) - 1):
                    add(gens.corrupt(r, f)[0])
                add(f)
        if last and burst:
            script.append(("barrier",))
        # some instruments terminate every unit with CR LF, also the EOT
        add(gens.EOT + b"\r\n" if r.random() < 0.15 and not burst else gens.EOT)

    if force_lower or burst:
        segs = ["complete"]
    else:
        segs = [r.choice(["complete", "complete", "retransmit", "unfinished-run", "keepalive"])
                for _ in range(r.choice([1, 1, 2, 3]))]
        if r.random() < 0.2:
            segs.append("abandoned")
    if not (force_lower or burst) and r.random() < 0.15:
        segs = ["same-again"] + segs
    for i, kind in enumerate(segs):
        kinds.append(kind)
        if kind == "same-again":
            # an analyser that sends its whole message as one frame and reports the same result in two sessions in a row
            text = C03.json_conformant_text(r) if conformant else None
            fr = gens.message_frames(r, seq=1, text=text, parts=1)[0][0]
            for _k in range(2):
                add(gens.ENQ)
                add(fr)
                add(gens.EOT)
        elif kind == "complete":
            one_session(last=(i == len(segs) - 1))
        elif kind == "retransmit":
            one_session(retransmit=True)
        elif kind == "unfinished-run":
            add(gens.ENQ)
            for _ in range(r.choice([1, 2])):
                add(gens.frame(r.randrange(8), gens.text_bytes(r, 6), final=False))
            add(gens.EOT)
        elif kind == "keepalive":
            add(gens.ENQ)
            add(gens.EOT)
        elif kind == "abandoned":
            add(gens.ENQ)
            frames, _ = gens.message_frames(r, seq=1, parts=1, text=C03.json_conformant_text(r) if conformant else None)
            add(frames[0])
            script.append(("close",))
    events.append(("L",))
    return script, events, "+".join(kinds)


def long_session_script(r, conformant, n_frames):
    """one instrument whose single session has more than a thousand frames (a day's backlog sent in one transfer)"""
    from harness.props import C03
    script, events = [], []

    def add(d):
        script.append(("send", d))
        events.append(("d", d))
    add(gens.ENQ)
    seq = 1
    for k in range(n_frames):
        if conformant:
            text = C03.json_conformant_text(r) if k == 0 else C03.headerless_conformant_text(r)
        else:
            text = None if k else b"H|\\^&|||long^1|||||||P|1|20240101120000"
        fr = gens.message_frames(r, seq=seq, text=text, parts=1)[0][0]
        add(fr)
        seq = (seq + 1) % 8
    add(gens.EOT)
    events.append(("L",))
    return script, events, "long(%d)" % n_frames


def expected_files(fmt, all_events, ctx):
    """model: per connection the receiver alone (C04), its deliveries rendered (C03/C11) and UTF-8 encoded (write_message)"""
    mfmt = fmt if fmt is not None else "@default"
    lines = recv.model_lines([(mfmt, evs) for evs in all_events])
    out = []
    if not ctx.driver_ok:
        return None
    for evs, ml in zip(all_events, common.drive(lines)):
        mo = recv.parse_model(ml)
        for o in mo:
            if o["deliver"] is None:
                continue
            if o["deliver"][0] == "text":
                out.append(("text", o["deliver"][1].decode("latin-1").encode("utf-8")))
            else:
                try:
                    out.append(("json", recv.to_json_real(o["deliver"][1])))
                except Exception:
                    pass
    return out


def declarative_files(fmt, all_events, problems=None):
    """independent reading: completed sessions of each connection, rendered"""
    eff = fmt if fmt is not None else "json"
    out = []
    for evs in all_events:
        ref = oracles.RefReceiver(eff)
        for ev in evs:
            exp = ref.expect(ev)
            if exp["deliver"] is not None:
                if exp["deliver"][0] == "text":
                    out.append(("text", exp["deliver"][1].decode("latin-1").encode("utf-8")))
                else:
                    try:
                        out.append(("json", recv.to_json_real(exp["deliver"][1])))
                    except Exception as e:  # noqa
                        if problems is not None:
                            problems.append("a completed, schema-conformant session cannot be rendered as json (%s)" % type(e).__name__)
    return out


def json_files_follow_their_schemas(files):
    """every archived json document lists the records of its own frames under the schemas of the model its header names
    (independent of the Wrapper's schema selection): returns None or a reason"""
    from harness.props import C11, C17
    from harness import schemaio
    con = schemaio.contract()
    specs_by_mod = {m["module"]: {rec["letter"]: rec for rec in m["records"]} for m in con["modules"]}
    for f in files:
        try:
            doc = json.loads(f.decode("utf-8"))
            # (frames are joined by LF; a LF inside a frame's text is content: frames begin with STX)
            import re as _re
            frames = [x.encode("latin-1") for x in _re.split("\n(?=\x02)", doc["metadata"]["astm"])]
        except Exception:
            return "an archived file is not a json document with metadata.astm"
        module = C17.expected_module(frames[0].decode("latin-1"))
        if module is None:
            continue
        mapping = {l: schemaio.real_class(module, l) for l in specs_by_mod[module]}
        bad = C11.declarative_check(frames, doc, mapping)
        if bad:
            return "a session of a %s analyser is archived with other schemas than its own: %s" % (module, bad[1])
    return None


def hub_message(r):
    """(text of a message whose header names an instrument model behind a shared sender name, module)"""
    from harness.props import C17
    toks = C17.tokens()
    head = None
    while head is None:
        module = r.choice(sorted(toks) + ["generic", "generic"])
        head = C17.hub_header(module, None if module == "generic" else r.choice(toks[module]["tokens"]))
    return (head + "\rL|1|N").encode("latin-1"), module


def same_multiset(files, expected):
    files = list(files)
    for kind, content in expected:
        hit = None
        for i, f in enumerate(files):
            if f == content or (kind == "json" and oracles.json_equal_mod_now(f.decode("utf-8", "replace"), content.decode())):
                hit = i
                break
        if hit is None:
            return False
        files.pop(hit)
    return not files


def one_run(r, fmt, ctx, stream, burst=False, _retry=0):
    tmp = tempfile.mkdtemp(prefix="astm-c14-")
    outdir = os.path.join(tmp, "out")
    os.makedirs(outdir)
    port = free_port()
    n_clients = r.choice([10, 14]) if burst else r.choice([3, 4, 6, 8])
    conformant = fmt in ("json", None)
    scripts = [session_script(r, conformant, force_lower=(i == 0 and not burst), burst=burst) for i in range(n_clients)]
    barrier = threading.Barrier(n_clients) if burst else None
    proc = start_server(outdir, fmt, port, tmp)
    try:
        logs = [[] for _ in scripts]
        seeds = [r.random() for _ in scripts]

        def pacer(seed):
            import random
            rr = random.Random(seed)
            return lambda: rr.choice([0, 0, 0.001, 0.005, 0.02])
        threads = [threading.Thread(target=client, args=(port, sc[0], pacer(sd), lg, barrier))
                   for sc, sd, lg in zip(scripts, seeds, logs)]
        [t.start() for t in threads]
        [t.join(30) for t in threads]
        # wait for the archive to settle
        problems = []
        exp_decl = declarative_files(fmt, [sc[1] for sc in scripts], problems)
        deadline = time.time() + 20          # generous: on success the loop ends at once
        while time.time() < deadline:
            if len(os.listdir(outdir)) >= len(exp_decl):
                break
            time.sleep(0.05)
        time.sleep(0.15)
        died = proc.poll()
    finally:
        proc.terminate()
        try:
            proc.wait(5)
        except Exception:
            proc.kill()
    files = []
    for fn in sorted(os.listdir(outdir)):
        with open(os.path.join(outdir, fn), "rb") as fh:
            files.append(fh.read())
    kinds = [sc[2] for sc in scripts]
    # a client that did not get through its script in time (thread still running, a reply that did not arrive within
    # 10 s, a socket error) was not served as scripted - the machine is overloaded or the server is gone; what was
    # acknowledged is then not what the scripts say, so the run decides nothing (counted, not judged; the in-process
    # stream plays the same kind of scenario on a virtual clock)
    stalled = [i for i, (t, lg) in enumerate(zip(threads, logs))
               if t.is_alive() or any(x == b"<timeout>" or x.startswith(b"<error") for x in lg)]
    if died is not None:
        stream.case({"format": fmt, "server_exit": died})
        stream.fail({"format": fmt, "server_exit": died, "clients": n_clients},
                    "the server process ended by itself (exit %r) while instruments were connected" % died, "server-runs/server-exit")
        shutil.rmtree(tmp, ignore_errors=True)
        return
    if stalled:
        stream.count("inconclusive-slow-run")
        shutil.rmtree(tmp, ignore_errors=True)
        if _retry < 1:
            return one_run(r, fmt, ctx, stream, burst=burst, _retry=_retry + 1)
        return
    case = {"format": fmt, "clients": [[gens.ev_hex(e) for e in sc[1]] for sc in scripts], "kinds": kinds,
            "files": len(files)}
    incomplete = any(x in k for k in kinds for x in ("abandoned", "unfinished-run", "keepalive"))
    stream.case(case, nontrivial=n_clients >= 2 and (incomplete or burst))
    stream.count("format=%s" % fmt)
    if burst:
        stream.count("simultaneous-eot-burst")
    if problems:
        stream.fail(case, problems[0], "server-runs/not-rendered")
    if not same_multiset(files, exp_decl):
        stream.fail(dict(case, expected_files=len(exp_decl), found=[f[:60].hex() for f in files[:6]]),
                    "the output directory holds %d files, %d completed sessions were acknowledged; contents %s the "
                    "renderings of the completed sessions" % (len(files), len(exp_decl),
                                                              "are not" if len(files) == len(exp_decl) else "cannot be"),
                    "server-runs/%s" % ("file-count" if len(files) != len(exp_decl) else "content"))
    if fmt in ("json", None):
        why = json_files_follow_their_schemas(files)
        if why:
            stream.fail(case, why, "server-runs/schemas")
    exp_model = expected_files(fmt, [sc[1] for sc in scripts], ctx)
    if exp_model is not None and not same_multiset(files, exp_model):
        stream.disagree(case, "directory: %d files" % len(files), "model: %d files" % len(exp_model))
    shutil.rmtree(tmp, ignore_errors=True)


def inprocess_run(r, fmt, stream, burst, n_clients=None, timeouts=False, raw_store=None, scripts=None):
    """server.main() in-process (harness/servermain.py): its queue, consumer task, dispatch closure, protocol factory and
    to_thread archive tasks run for real on asyncio's loop with a virtual clock; connections are played against the
    factory at scripted instants.  burst: all final EOTs are delivered at the same instant (one loop iteration)."""
    from harness import servermain
    tmp = tempfile.mkdtemp(prefix="astm-c14i-")
    outdir = os.path.join(tmp, "out")
    os.makedirs(outdir)
    n = n_clients or r.choice([2, 3, 5, 8])
    conformant = fmt in ("json", None)
    if scripts is None:
        scripts = [session_script(r, conformant, force_lower=False, burst=False) for _ in range(n)]
    n = len(scripts)
    store = None
    if raw_store:
        # the optional raw copy of the receiver (./astm_messages in the working directory) cannot be written: a plain file
        # of that name.  The completed session is archived all the same (every connection ends after its first EOT here)
        from harness import impl
        store = os.path.join(impl.private_cwd(), "astm_messages")
        with open(store, "wb") as fh:
            fh.write(b"not a folder")
        cut = []
        for script, events, kinds in scripts:
            k_ = next((i for i, ev in enumerate(events) if ev[0] == "d" and ev[1][:1] == b"\x04"), len(events) - 1)
            cut.append((script, events[:k_ + 1], kinds))
        scripts = cut
    scenario = []
    all_events = []
    t_burst = 0
    plans = []
    for c, (script, events, kinds) in enumerate(scripts):
        t = r.randrange(0, 4)
        plan = [(t, c, ("open",))]
        for ev in events:
            t += r.choice([1, 1, 1, 2, 5])      # (handles with equal deadlines run in no particular order)
            plan.append((t, c, ("data", ev[1]) if ev[0] == "d" else ("lost",)))
        if timeouts and r.random() < 0.3:
            # the instrument falls silent in the middle of a further transfer and is closed by the inactivity timeout;
            # later another instrument connects (a server that recycles objects would hand it a used one)
            if plan[-1][2] == ("lost",):
                plan = plan[:-1]
                events = events[:-1]
            t += 1
            plan.append((t, c, ("data", gens.ENQ)))
            events = list(events) + [("d", gens.ENQ), ("T",)]
            t += 40
        plans.append(plan)
        all_events.append(list(events))
        t_burst = max(t_burst, t)
    if burst:
        # shift every connection as a whole so that its last EOT falls on one common instant (the pauses inside a
        # connection stay as they are, below the inactivity timeout)
        for k_, plan in enumerate(plans):
            idx = [i for i, st in enumerate(plan) if st[2][0] == "data" and st[2][1][:1] == b"\x04"]
            if idx:
                off = t_burst + 1 - plan[idx[-1]][0]
                plans[k_] = [(t + off, c, a_) for t, c, a_ in plan]
    for plan in plans:
        scenario += plan
    scenario.sort(key=lambda x: x[0])
    args = ["-o", outdir] + (["-m", fmt] if fmt is not None else [])
    try:
        res = servermain.run_server_main(args, scenario, settle=2)
    finally:
        if store:
            os.remove(store)
    files = []
    for fn in sorted(os.listdir(outdir)):
        with open(os.path.join(outdir, fn), "rb") as fh:
            files.append(fh.read())
    problems = []
    exp_decl = declarative_files(fmt, all_events, problems)
    case = {"format": fmt, "in_process": True, "burst": burst, "raw_copy_store": raw_store, "scenario": [[t, c, a[0], a[1].hex() if len(a) > 1 else ""] for t, c, a in scenario],
            "kinds": [sc[2] for sc in scripts], "files": len(files)}
    stream.case(case, nontrivial=n >= 2)
    stream.count("format=%s" % fmt)
    if burst:
        stream.count("same-instant-eot")
    if raw_store:
        stream.count("raw copy cannot be written")
    if res["exit"] not in (None, 0):
        stream.fail(case, "server.main() exited with %r" % (res["exit"],), "in-process/exit")
    if problems:
        stream.fail(case, problems[0], "in-process/not-rendered")
    if not same_multiset(files, exp_decl):
        stream.fail(dict(case, expected_files=len(exp_decl), found=[f[:60].hex() for f in files[:6]]),
                    "the output directory holds %d files, %d completed sessions were acknowledged; contents %s the "
                    "renderings of the completed sessions" % (len(files), len(exp_decl),
                                                              "are not" if len(files) == len(exp_decl) else "cannot be"),
                    "in-process/%s" % ("file-count" if len(files) != len(exp_decl) else "content"))
    if fmt in ("json", None):
        why = json_files_follow_their_schemas(files)
        if why:
            stream.fail(case, why, "in-process/schemas")
    shutil.rmtree(tmp, ignore_errors=True)
    return res


def run(ctx):
    r = ctx.rng("C14")
    s = Stream("server-runs")
    fmts = ["astm", "lis2a", "json"]
    n = 20 if ctx.thorough else 2
    for fmt in fmts:
        for _ in range(n):
            one_run(r, fmt, ctx, s)
    one_run(r, None, ctx, s)      # no -m option: json by default
    # many instruments finishing at the same moment: all EOTs are sent when every client has reached its EOT
    for fmt in (["json", "astm", "json", "lis2a"] if ctx.thorough else ["json"]):
        one_run(r, fmt, ctx, s, burst=True)
    ip = Stream("server-main-in-process")
    for i in range(400 if ctx.thorough else 60):
        inprocess_run(r, r.choice(["astm", "lis2a", "json", "json", None]), ip, burst=(i % 3 == 0), timeouts=(i % 4 == 1))
    # many instruments finishing in the same turn of the event loop
    for i in range(4 if ctx.thorough else 1):
        inprocess_run(r, r.choice(["astm", "json"]), ip, burst=True, n_clients=r.choice([90, 130]))
    for i in range(40 if ctx.thorough else 6):
        inprocess_run(r, r.choice(["astm", "lis2a", "json"]), ip, burst=False, raw_store="plain-file")
    # one session of more than a thousand frames next to ordinary ones
    for fmt in (["astm", "json", "lis2a"] if ctx.thorough else [r.choice(["astm", "json", "lis2a"])]):
        conf = fmt == "json"
        inprocess_run(r, fmt, ip, burst=False, scripts=[long_session_script(r, conf, r.choice([1025, 1100, 2060])),
                                                         session_script(r, conf)])
    # a server that has archived more sessions than it may hold descriptors open (soft limit lowered for the run)
    import resource
    soft, hard = resource.getrlimit(resource.RLIMIT_NOFILE)
    used = len(os.listdir("/proc/self/fd"))
    try:
        resource.setrlimit(resource.RLIMIT_NOFILE, (used + 100, hard))
        inprocess_run(r, "astm", ip, burst=False, n_clients=r.choice([140, 170]))
    finally:
        resource.setrlimit(resource.RLIMIT_NOFILE, (soft, hard))
    # outside the stated domain (O1), model against code only: sessions of line-oriented senders whose frames end
    # with CR only / LF only / nothing behind the checksum
    from harness.props import C03
    return [s, ip, C03.exploratory_stream(ctx, ctx.rng("C14.O1"))]


def search(ctx, disagreements):
    return []
