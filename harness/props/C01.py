# -*- coding: utf-8 -*-
"""C01 - Only checksum-valid frames are acknowledged or delivered."""
from harness import common, gens, recv, oracles
from harness.common import Stream
from harness.props.C02 import run_histories_fmt

PID = "C01"
LEAN_MODULES = ["Astm.Proofs.C01", "Astm.State.C01", "Astm.Surface.C01"]
THEOREMS = [
    "Astm.C01.validate_iff_checksum_ok", "Astm.C01.ack_iff_checksum_ok", "Astm.C01.nak_no_effect",
    "Astm.C01.delivered_from_acked", "Astm.C01.damaged_frame_is_transparent", "Astm.C01.example_frames",
    "Astm.validB_iff", "Astm.join_valid", "Astm.step_refines",
    "Astm.C01.anchored_code_keeps_no_other_state", "Astm.C01.anchored_code_keeps_its_signatures",
]
RULE = ("sessions built from message texts and split points (1-4 frames per message, 1-3 messages); every frame is "
        "additionally sent in a corrupted variant (one byte of frame number / text / terminator / checksum changed) "
        "at its position in the run, with or without retransmission of the good frame; non-trivial = at least one "
        "corrupted frame inside a transfer and at least one ACKed frame; thorough: every byte x 255 values of every "
        "frame of a set of sessions")
LEVEL_NOTE = ("proof for every state and byte list (one-step) and every event history (trace); tie = correspondence of "
              "validate_checksum / join / is_chunked_message / ASTMProtocol models with the code")
FORMATS = ["astm", "lis2a", "json"]


def session(r, corrupt_p=0.5, retransmit_p=0.6):
    evs = [("d", gens.ENQ)]
    n_corrupt = 0
    n_msgs = r.choice([1, 1, 2, 3])
    for _ in range(n_msgs):
        frames, _ = gens.message_frames(r, seq=r.randrange(8))
        for f in frames:
            if r.random() < corrupt_p:
                if r.random() < 0.15 and len(f) > 8:
                    # the frame arrives in two pieces (two TCP segments): each piece is a unit of its own, none of them
                    # verifies, nothing of them is delivered
                    cut = r.randrange(3, len(f) - 2)
                    evs.append(("d", f[:cut]))
                    if f[cut:cut + 1] not in (b"\x02", b"\x04", b"\x05", b"\x06", b"\x15"):
                        evs.append(("d", f[cut:]))
                else:
                    bad, pos, new = gens.corrupt(r, f, region=r.choice(["content", "checksum", None]))
                    evs.append(("d", bad))
                n_corrupt += 1
                if r.random() < retransmit_p:
                    evs.append(("d", f))
            else:
                evs.append(("d", f))
    evs.append(("d", gens.EOT))
    return evs, n_corrupt


def optimised_sessions(n, seed_tag):
    """(runs in a child interpreter under -O) sessions with damaged frames against the reference receiver"""
    r = common.rng(seed_tag)
    bad = []
    done = 0
    for _ in range(n):
        evs, nc = session(r)
        if any(gens.is_vendor_line(e[1]) for e in evs if e[0] == "d"):
            continue
        fmt = r.choice(["astm", "lis2a"])
        i, clause = recv.first_failure(fmt, evs + gens.PROBE)
        done += 1
        if i is not None and len(bad) < 3:
            bad.append({"format": fmt, "events": [gens.ev_hex(e) for e in evs + gens.PROBE], "at": i, "clause": clause,
                        "assertions_enabled": __debug__})
    return {"evaluations": done, "failures": bad, "debug": __debug__}


def run(ctx):
    r = ctx.rng("C01")
    s = Stream("sessions")
    hs = []
    for _ in range(20000 if ctx.thorough else 3000):
        evs, nc = session(r)
        if any(gens.is_vendor_line(e[1]) for e in evs if e[0] == "d"):
            continue
        hs.append((r.choice(FORMATS), evs + gens.PROBE, {"nontrivial": nc > 0, "corrupted": nc}))
        s.count("corrupted_frames", nc)
    run_histories_fmt(s, hs, ctx)
    streams = [s]

    # a frame answered with NAK contributes nothing - also when it was refused because no transfer was open: frames
    # (valid and damaged) in front of the ENQ, between two sessions and behind the last EOT of a connection
    ot = Stream("frames-outside-a-transfer")
    hs = []
    for _ in range(6000 if ctx.thorough else 800):
        evs = []
        for _k in range(r.choice([1, 2, 3])):
            for _j in range(r.choice([0, 1, 1, 2])):
                stray = gens.message_frames(r, seq=r.randrange(8), parts=r.choice([1, 1, 2]))[0]
                if r.random() < 0.3:
                    stray = [gens.corrupt(r, stray[0])[0]]
                evs += [("d", f) for f in stray[:r.choice([1, len(stray)])]]
            sess, nc = session(r, corrupt_p=0.1)
            evs += sess
        if any(gens.is_vendor_line(e[1]) for e in evs if e[0] == "d"):
            continue
        hs.append((r.choice(FORMATS), evs + gens.PROBE, {"nontrivial": True}))
    run_histories_fmt(ot, hs, ctx)
    streams.append(ot)

    # a NAKed frame contributes nothing - not even to the choice of the schemas: the first frame of a transfer arrives
    # damaged such that it names another analyser (or none), is NAKed and retransmitted; what is delivered as json is
    # what the undamaged transfer delivers
    dh = Stream("damaged-header-names-another-model")
    from harness.props import C17
    from harness import schemaio, impl
    specs = {}
    for module, letter, spec in schemaio.record_specs():
        specs.setdefault(module, {})[letter] = spec
    mods = [m for m in specs if C17.hub_header(m) is not None]
    for _ in range(400 if ctx.thorough else 60):
        m_a = r.choice(mods)
        m_b = r.choice([m for m in mods + ["generic"] if m != m_a])
        good = gens.frame(1, C17.hub_header(m_a).encode("latin-1"), True)
        other = C17.hub_header(m_b if m_b != "generic" else None)
        bad = gens.frame(1, other.encode("latin-1"), True)
        # (damaged: the checksum characters are those of the good frame, or one of them is changed)
        bad = bad[:-4] + (good[-4:-2] if good[-4:-2] != bad[-4:-2] else bytes([bad[-4] ^ 1, bad[-3]])) + bad[-2:]
        body = []
        for k, l in enumerate([x for x in ("P", "O", "R", "L") if x in specs[m_a]]):
            raw = schemaio.gen_record(r, specs[m_a][l], fill=0.6)[0]
            body.append(gens.frame(2 + k, raw, True))
        clean = [("d", gens.ENQ), ("d", good)] + [("d", f) for f in body] + [("d", gens.EOT)]
        dirty = [("d", gens.ENQ), ("d", bad), ("d", good)] + [("d", f) for f in body] + [("d", gens.EOT)]
        outs = []
        for evs in (clean, dirty):
            c = impl.Conn(fmt="json")
            got = []
            for ev in evs:
                ob = c.event(ev)
                got.append((ev[1][:1], ob["writes"], ob["exc"], [x if isinstance(x, str) else x.decode("latin-1") for x in ob["delivered"]]))
            outs.append(got)
        case = {"named": m_a, "damaged_frame_names": m_b, "events": [gens.ev_hex(e) for e in dirty]}
        dh.case(case)
        nak = outs[1][1][1]
        if nak != [b"\x15"]:
            dh.fail(case, "the damaged first frame is answered %r, expected NAK" % (nak,), "damaged-header/reply")
            continue
        d_clean = outs[0][-1][3]
        d_dirty = outs[1][-1][3]
        if len(d_clean) != len(d_dirty) or any(not oracles.json_equal_mod_now(a, b) for a, b in zip(d_clean, d_dirty)):
            dh.fail(dict(case, clean=repr(d_clean)[:300], with_damaged_frame=repr(d_dirty)[:300]),
                    "the transfer whose first frame arrived damaged (naming %s) and was retransmitted is delivered differently "
                    "from the undamaged transfer" % m_b, "damaged-header/delivery")
    streams.append(dh)

    # the rule does not wear off: damaged frames after more than a thousand accepted messages of one transfer
    lg = Stream("damage-late-in-a-long-transfer")
    hs = []
    for i in range(3 if ctx.thorough else 1):
        n = r.choice([1050, 1300])
        evs = [("d", gens.ENQ)]
        for k in range(n):
            evs.append(("d", gens.frame(k % 8, b"R|%d|v" % k, True)))
        for k in range(6):
            f = gens.message_frames(r, seq=k % 8, parts=r.choice([1, 2]))[0]
            evs.append(("d", gens.corrupt(r, f[0], region=r.choice(["content", "checksum"]))[0]))
            evs += [("d", x) for x in f]
        evs.append(("d", gens.EOT))
        hs.append(("astm", evs + gens.PROBE, {"nontrivial": True, "messages": n}))
    run_histories_fmt(lg, hs, ctx)
    streams.append(lg)

    # the same kind of sessions in an interpreter started with -O (assert statements are compiled away there)
    oq = Stream("python-O")
    res = common.run_under_O("C01", "optimised_sessions", 3000 if ctx.thorough else 400, "C01.O/%d" % common.seed())
    oq.evaluations += res["evaluations"]
    oq.nontrivial.update(range(res["evaluations"]))
    oq.samples.append({"interpreter": "python -O", "assertions_enabled": res["debug"]})
    if res["debug"]:
        oq.fail({"interpreter": "python -O"}, "the child interpreter did not run with -O", "python-O/not-optimised")
    for f in res["failures"][:1]:
        oq.fail(f, "under python -O, unit %d of the session is not answered / delivered as the checksums demand (%s)"
                % (f["at"], f["clause"]), "python-O/%s" % f["clause"])
    streams.append(oq)

    # exhaustive single-byte corruption of every frame of a few sessions: position x 255 values
    e = Stream("exhaustive-corruption")
    n_sessions = 12 if ctx.thorough else 2
    hs = []
    for _ in range(n_sessions):
        frames, _ = gens.message_frames(r, seq=1, text=gens.record_text(r, 1)[:r.choice([6, 12, 20])],
                                        parts=r.choice([1, 2, 3]))
        for fi, f in enumerate(frames):
            end = len(f.rstrip(b"\r\n"))
            for pos in range(1, end):
                for new in range(256):
                    if new == f[pos]:
                        continue
                    bad = f[:pos] + bytes([new]) + f[pos + 1:]
                    if gens.is_vendor_line(bad):
                        continue
                    evs = [("d", gens.ENQ)] + [("d", x) for x in frames[:fi]] + [("d", bad)] \
                        + [("d", x) for x in frames[fi:]] + [("d", gens.EOT)]
                    hs.append(("astm", evs, {"nontrivial": True, "pos": pos, "new": new, "frame": fi}))
    run_histories_fmt(e, hs, ctx)
    streams.append(e)

    # validate_checksum itself: model vs implementation vs declarative oracle on frames and corruptions
    v = Stream("validate_checksum")
    from senaite.astm import utils
    cases = []
    for _ in range(30000 if ctx.thorough else 4000):
        k = r.choice(["valid", "corrupt", "short", "garbage"])
        if k == "valid":
            m = gens.unit(r, r.choice(["final", "inter", "stxvalid"]))
        elif k == "corrupt":
            m = gens.unit(r, "corrupt")
        elif k == "short":
            m = bytes(r.randrange(256) for _ in range(r.randrange(0, 6)))
        else:
            m = gens.text_bytes(r, r.randrange(0, 20)) + r.choice([b"", b"\r", b"\n", b"\r\n", b"\n\r\n"])
        cases.append(m)
    model = common.drive(["vc " + common.hexb(m) for m in cases]) if ctx.driver_ok else [None] * len(cases)
    for m, mo in zip(cases, model):
        try:
            got = "ok %d" % (1 if utils.validate_checksum(m) else 0)
        except Exception as exc:
            got = "err " + type(exc).__name__
        v.case({"frame": common.hexb(m)})
        exp = oracles.checksum_ok(m)
        if (got == "ok 1") != exp:
            v.fail({"frame": common.hexb(m), "impl": got}, "validate_checksum says %s, declarative checksum rule says %s"
                   % (got, exp), "validate_checksum/wrong-verdict")
        if mo is not None and mo != got:
            v.disagree({"frame": common.hexb(m)}, got, mo)
    streams.append(v)
    return streams


def search(ctx, disagreements):
    s = Stream("search")
    r = ctx.rng("C01.search")
    hs = []
    for _ in range(15000):
        evs, nc = session(r, corrupt_p=0.7)
        hs.append((r.choice(FORMATS), evs + gens.PROBE, {}))
    class NoModel(object):
        driver_ok = False
    run_histories_fmt(s, hs, NoModel())
    return s.oracle_failures


def replay(payload):
    from harness.props import C02
    return C02.replay(payload)
