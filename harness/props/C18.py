# -*- coding: utf-8 -*-
"""C18 - Vendor line formats are converted to one complete, valid ASTM message."""
import datetime as _dt
import re

from harness import common, gens, impl, oracles, recv
from harness.common import Stream, hexb

PID = "C18"
LEAN_MODULES = ["Astm.Proofs.C18", "Astm.State.C18", "Astm.Surface.C18"]
THEOREMS = [
    "Astm.C18.frames_have_valid_checksums", "Astm.C18.templates_numbered_and_terminated",
    "Astm.C18.placeholders_land_in_schema_fields", "Astm.C18.converted_line_delivers_once_and_closes",
    "Astm.C18.adapter_glue", "Astm.C18.vendor_lines_start_with_stx", "Astm.C18.ordinary_frames_not_taken_over",
    "Astm.C18.example_conversion",
    "Astm.C18.vendor_schemas_eq_contract", "Astm.C18.anchored_code_keeps_no_other_state", "Astm.C18.anchored_code_keeps_its_signatures",
]
RULE = ("lines generated from the vendor grammars: miniVidas = leading mt tag followed by any subset of the 19 optional tags "
        "in their fixed order with ids / names / values over printable ASCII and UTF-8 text (no field delimiter), any valid "
        "date and time (also absent), checksum tag; Spotchem = the fixed layout with any amount of padding whitespace, ids "
        "over [A-Z0-9-_], sample type text, three results as digits[.digits]; each with and without a preceding ENQ, in all "
        "formats; plus ordinary ASTM units (ENQ, EOT, frames whose text starts with a record letter) and near-miss lines "
        "which must not be taken over; non-trivial = >= 3 optional tags and both date and time present")
LEVEL_NOTE = ("proof (partial): frames built from the regenerated templates carry valid checksums, are numbered 1.. and end CR ETX; "
              "placeholders land in the fields the instrument schema reads (decided on templates + schemas); one delivery, idle "
              "afterwards; ordinary frames are not taken over (first-byte analysis of the regenerated patterns); Python's re, "
              "strptime (canonical spellings) and float repr (plain decimals) are modelled")
ASSUMPTIONS = ["values are free of the ASTM delimiters | ^ \\ & CR and valid UTF-8 (O8)",
               "strptime for the canonical two-digit spellings; float repr for <= 15 significant digits without exponent"]
NOW = _dt.datetime(2024, 1, 31, 12, 0, 7)
MINI_TAGS = ["pi", "pn", "pb", "ps", "so", "si", "ci", "rt", "rn", "tt", "td", "ql", "qn", "y3", "qd", "nc", "id", "sn", "m4"]
VALCH = [c for c in "ABCxyz0189 .-_/+:()%éµЖ{}" ]


class FakeNow(_dt.datetime):
    @classmethod
    def now(cls, tz=None):
        return NOW


def val(r, maxlen=10):
    return "".join(r.choice(VALCH) for _ in range(r.randrange(0, maxlen)))


def valid_mdy(r):
    y = r.choice([0, 24, 68, 69, 99, 23])
    m = r.randrange(1, 13)
    full = 1900 + y if y >= 69 else 2000 + y
    dim = [31, 29 if (full % 4 == 0 and full % 100 != 0) or full % 400 == 0 else 28, 31, 30, 31, 30, 31, 31, 30, 31, 30, 31][m - 1]
    d = r.choice([1, dim, r.randrange(1, dim + 1)])
    return "%02d/%02d/%02d" % (m, d, y), "%04d%02d%02d" % (full, m, d)


def mini_line(r):
    tags = {}
    present = [t for t in MINI_TAGS if r.random() < r.choice([0.2, 0.6, 0.9])]
    for t in present:
        if t == "td":
            tags[t], _ = valid_mdy(r)
        elif t == "tt":
            tags[t] = "%02d:%02d" % (r.randrange(24), r.randrange(60))
        elif t == "pb":
            tags[t] = r.choice(["", "19800229", "20011231"])
        else:
            # mostly short; now and then a value of several hundred characters (long names, comments)
            tags[t] = val(r, r.choice([10, 10, 10, 10, 60, 200, 400]))
    parts = ["\x1emt" + r.choice(["rsl", "mpr", ""])]
    for t in MINI_TAGS:
        if t in tags:
            parts.append("\x1e" + t + tags[t])
    line = "\x02" + "|".join(parts) + "|\x1d" + r.choice(["A5", "0f", "9C"])
    return line.encode("utf-8"), tags


def spot_line(r):
    def ws(minimum=1):
        pad = " " * r.choice([minimum, minimum, 2, 5]) if minimum else " " * r.choice([0, 0, 1, 3])
        if pad and r.random() < 0.03:
            # (the format pads with white space: a tabulator or a line break of a wrapped print line is padding too)
            k = r.randrange(len(pad))
            pad = pad[:k] + r.choice(["\t", "\n", "\r\n"]) + pad[k + 1:]
        return pad
    y, m = r.choice([0, 24, 68, 69, 99]), r.randrange(1, 13)
    d = r.randrange(1, 29)
    date = "%02d/%02d/%02d" % (y, m, d)
    time = "%02d:%02d" % (r.randrange(24), r.randrange(60))
    sid = "".join(r.choice("ABCXYZ0189-_") for _ in range(r.choice([1, 2, 5, 9, 9, 13, 14, 24, 40])))
    stype = r.choice(["Serum", "Plasma", "Whole Blood", "U", "", "x", "Plasma {EDTA}", "{0}", "Urine }", "{CR}", "{", "%s", "{{x}}"])
    def num():
        return r.choice(["140", "140.5", "4.10", "0.5", "101", "7.", "003.20", "12345.678", "0", "0.0"])
    vals = [num(), num(), num()]
    line = ("\x02" + date + ws() + time + ws() + "ID#" + ws(0) + sid + ws() + "[" + stype + "]" + ws()
            + "Na" + ws() + vals[0] + ws() + "mmol/L" + ws() + "K" + ws() + vals[1] + ws() + "mmol/L" + ws()
            + "Cl" + ws() + vals[2] + ws() + "mmol/L" + ws(0) + "\x03")
    full = 1900 + y if y >= 69 else 2000 + y
    meta = {"sid": sid, "stype": stype, "vals": vals, "ts": "%04d%02d%02d%s%s00" % (full, m, d, time[:2], time[3:])}
    return line.encode("utf-8"), meta


def run_real(fmt, events):
    """real protocol with the adapters' clock frozen"""
    from senaite.astm.adapters.biomerieux import mini_vidas
    orig = mini_vidas.datetime
    mini_vidas.datetime = FakeNow
    try:
        c = impl.Conn(fmt=fmt)
        return [c.event(ev) for ev in events], c
    finally:
        mini_vidas.datetime = orig


def parse_frames(astm_text):
    return re.split(b"\n(?=\x02)", astm_text.encode("latin-1"))


def same_bytes(got, want):
    """field values are compared byte-wise: the adapters emit UTF-8, the receiver pipeline is byte-transparent
    (latin-1), so a non-ASCII value comes back as the latin-1 reading of its UTF-8 bytes (observation O10)"""
    if got is None or want is None:
        return got is None and (want is None or want == "")
    try:
        return got.encode("latin-1") == want.encode("utf-8")
    except UnicodeEncodeError:
        return False


def check_delivery(kind, meta, frames):
    """frames: list of bytes (delivered in the astm format)"""
    from senaite.astm import codec
    from senaite.astm.wrapper import Wrapper
    for i, f in enumerate(frames):
        if not oracles.checksum_ok(f) or not f.startswith(b"\x02") or not f.rstrip(b"\r\n")[:-2].endswith(b"\r\x03"):
            return "frame-invalid", "frame %d of the converted message has no verifying checksum / CR ETX terminator" % i
        if f[1:2] != str((i + 1) % 8).encode():
            return "numbering", "frame %d of the converted message is numbered %r" % (i, f[1:2])
    try:
        doc = Wrapper(list(frames)).to_dict()
    except Exception as e:  # noqa
        return "not-renderable", "the converted message cannot be rendered with the instrument's schemas (%s)" % type(e).__name__
    letters = [k for k in doc if k != "metadata"]
    if kind == "mini":
        if letters != ["H", "P", "O", "R", "L"]:
            return "records", "converted miniVidas message has record types %r" % letters
        o, rr = doc["O"][0], doc["R"][0]
        exp = {"sample_id": meta.get("ci") or None, "test": meta.get("rn") or None}
        for k, v in exp.items():
            if not same_bytes(o.get(k), v):
                return "placement", "order.%s is %r, the line carried %r" % (k, o.get(k), v)
        if not same_bytes(rr.get("test"), meta.get("rt") or None) or not same_bytes(rr.get("value"), meta.get("qn") or None):
            return "placement", "result test / value are %r / %r, the line carried %r / %r" % (
                rr.get("test"), rr.get("value"), meta.get("rt"), meta.get("qn"))
        ts = meta.get("_ts")
        if ts and not (doc["H"][0].get("timestamp") == ts and o.get("reported_at") == ts and rr.get("completed_at") == ts):
            return "timestamp", "converted date/time is not %s in header / order / result" % ts
    else:
        if letters != ["H", "O", "R", "L"] or len(doc["R"]) != 3:
            return "records", "converted Spotchem message has record types %r" % letters
        o = doc["O"][0]
        if o.get("sample_id") != meta["sid"] or o.get("test") != (meta["stype"] or None):
            return "placement", "order sample id / type are %r / %r, the line carried %r / %r" % (
                o.get("sample_id"), o.get("test"), meta["sid"], meta["stype"])
        for rr, name, v in zip(doc["R"], ["Na", "K", "Cl"], meta["vals"]):
            if rr.get("test") != name or float(rr.get("value")) != float(v) or rr.get("units") != "mmol/L":
                return "placement", "result %s is %r %r, the line carried %s" % (name, rr.get("value"), rr.get("units"), v)
        ts = meta["ts"]
        if not (doc["H"][0].get("timestamp") == ts and o.get("sampled_at") == ts and all(x.get("completed_at") == ts for x in doc["R"])):
            return "timestamp", "converted date/time is not %s everywhere" % ts
    return None


def run(ctx):
    r = ctx.rng("C18")
    streams = []
    s = Stream("vendor-lines")
    cases = []
    for _ in range(6000 if ctx.thorough else 700):
        kind = r.choice(["mini", "spot"])
        line, meta = mini_line(r) if kind == "mini" else spot_line(r)
        if kind == "mini":
            date = meta.get("td", "")
            time = meta.get("tt", "")
            if date:
                m, d, y = date.split("/")
                full = 1900 + int(y) if int(y) >= 69 else 2000 + int(y)
                dpart = "%04d%s%s" % (full, m, d)
            else:
                dpart = NOW.strftime("%Y%m%d")
            tpart = (time.replace(":", "") + "00") if time else ("000000" if date else NOW.strftime("%H%M%S"))
            meta["_ts"] = dpart + tpart
        with_enq = r.random() < 0.5
        fmt = r.choice(["astm", "astm", "lis2a", "json"])
        pre = [("d", gens.ENQ)] if with_enq else []
        if with_enq and r.random() < 0.25:
            # an intermediate frame whose continuation never comes is pending when the line arrives
            pre.append(("d", gens.frame(1, gens.text_bytes(r, r.randrange(1, 9)), final=False)))
        evs = pre + [("d", line), ("d", gens.ENQ), ("d", gens.EOT)]
        cases.append((kind, meta, fmt, evs, len(pre)))
    lines = ["vrecv %s %s %s" % (fmt, hexb(NOW.strftime("%Y%m%d%H%M%S").encode()), " ".join(gens.ev_hex(e) for e in evs))
             for kind, meta, fmt, evs, _ in cases]
    model = common.drive(lines) if ctx.driver_ok else [None] * len(lines)
    for (kind, meta, fmt, evs, with_enq), ml in zip(cases, model):
        obs, conn = run_real(fmt, evs)
        i = with_enq            # (the number of units in front of the line)
        ob = obs[i]
        case = {"kind": kind, "line": hexb(evs[i][1]), "with_enq": bool(with_enq), "pending_intermediate_frame": with_enq == 2,
                "format": fmt}
        rich = kind == "spot" or (sum(1 for t in MINI_TAGS if t in meta) >= 3 and "td" in meta and "tt" in meta)
        s.case(case, nontrivial=rich)
        s.count(kind)
        bad = None
        if ob["exc"]:
            bad = ("raises", "converting a line of the vendor format raised %s" % ob["exc"])
        elif ob["writes"]:
            bad = ("reply", "a converted vendor line got a reply %r" % ob["writes"])
        elif len(ob["delivered"]) != 1:
            bad = ("delivery-count", "%d items delivered for one vendor line" % len(ob["delivered"]))
        elif obs[i + 1]["writes"] != [b"\x06"]:
            bad = ("still-open", "after the converted line a transfer is still open (ENQ answered %r)" % obs[i + 1]["writes"])
        elif ob["live_timers"] != 0:
            bad = ("timer", "a timer is still running after the converted line ended the transfer")
        elif fmt == "astm":
            bad = check_delivery(kind, meta, parse_frames(ob["delivered"][0]))
        if bad:
            s.fail(case, bad[1], "vendor-lines/" + bad[0])
        if ml is not None:
            mo = recv.parse_model(ml)
            if mo is None:
                s.disagree(case, "-", ml[:200])
            else:
                for k, (o1, m1) in enumerate(zip(obs, mo)):
                    why = oracles.observe_matches(m1, o1, recv.to_json_real)
                    if why:
                        s.disagree(dict(case, at=k), "impl: " + why, "model: %r" % (m1,))
                        break
    streams.append(s)

    # several lines on one connection, also the very same line again (the same control measured twice, a result sent
    # again on request): *every* line delivers exactly one message, and equal lines deliver equal messages
    rw = Stream("lines-in-a-row")
    for _ in range(1500 if ctx.thorough else 200):
        fmt = r.choice(["astm", "lis2a", "json"])
        pool = [mini_line(r)[0] if r.random() < 0.5 else spot_line(r)[0] for _k in range(2)]
        seq_lines = [r.choice(pool) for _k in range(r.choice([2, 3, 4]))]
        if r.random() < 0.5:
            seq_lines[1] = seq_lines[0]
        evs, marks = [], []
        for ln in seq_lines:
            if r.random() < 0.4:
                evs.append(("d", gens.ENQ))
            marks.append(len(evs))
            evs.append(("d", ln))
        obs, conn = run_real(fmt, evs)
        case = {"format": fmt, "events": [gens.ev_hex(e) for e in evs]}
        rw.case(case, nontrivial=len(set(seq_lines)) < len(seq_lines))
        rw.count("repeats" if len(set(seq_lines)) < len(seq_lines) else "distinct")
        first = {}
        for k, (at, ln) in enumerate(zip(marks, seq_lines)):
            ob = obs[at]
            if ob["exc"] or len(ob["delivered"]) != 1:
                rw.fail(dict(case, line_no=k), "line %d of %d on one connection (%s) delivered %d messages%s" % (
                    k + 1, len(seq_lines), "a repeat of an earlier line" if ln in seq_lines[:k] else "first occurrence",
                    len(ob["delivered"]), " and raised" if ob["exc"] else ""), "lines-in-a-row/delivery-count")
                break
            if ln in first and first[ln] != ob["delivered"][0] and fmt != "json":
                rw.fail(dict(case, line_no=k), "the same line delivers a different message the second time", "lines-in-a-row/differs")
                break
            first.setdefault(ln, ob["delivered"][0])
    streams.append(rw)

    # ordinary units and near misses must not be taken over
    n = Stream("not-taken-over")
    from senaite.astm.adapters.biomerieux import mini_vidas
    from senaite.astm.adapters.spotchem import se1520
    units = []
    for _ in range(20000 if ctx.thorough else 3000):
        k = r.choice(["ENQ", "EOT", "final", "inter", "stxgarb", "garb", "near-mini", "near-spot"])
        if k == "near-mini":
            line, tags = mini_line(r)
            p = r.randrange(len(line))
            cands = [line[:p] + line[p + 1:], line[:-3], line[1:], line + b"x", line.replace(b"\x1d", b"\x1e", 1)]
            items = line[:-4].split(b"|")
            if len(items) > 1:
                j = r.randrange(1, len(items))
                i2 = r.randrange(1, len(items))
                rep = items[:j + 1] + [items[j][:3] + val(r).encode("utf-8")] + items[j + 1:]      # tag twice in a row
                swp = list(items); swp[j], swp[i2] = swp[i2], swp[j]                            # out of order
                unk = items[:j] + [b"\x1ezz" + val(r).encode("utf-8")] + items[j:]                # unknown tag
                nors = items[:j] + [items[j][1:]] + items[j + 1:]                                # RS missing
                mt2 = items[:1] + [b"\x1emtrsl"] + items[1:]                                     # second mt
                far = items + [items[j]]                                                        # early tag again at the end
                for alt in (rep, rep, swp, unk, nors, mt2, far):
                    cands.append(b"|".join(alt) + line[-4:])
            u = r.choice(cands)
        elif k == "near-spot":
            line, _ = spot_line(r)
            p = r.randrange(len(line))
            cands = [line[:p] + line[p + 1:], line[:-1], line[1:], line.replace(b"ID#", b"ID", 1), line.replace(b"mmol/L", b"mg/dL", 1)]
            # padding / digits that only a Unicode-aware reading takes for white space or digits
            sp = r.choice([b"\x1c", b"\x1f", b"\xc2\xa0", b"\xe3\x80\x80", b"\xc2\x85", b"\xa0"])
            k = line.find(b" ", r.randrange(len(line)))
            if k > 0:
                cands += [line[:k] + sp + line[k + 1:]] * 2
            dg = [i for i, ch in enumerate(line) if 48 <= ch <= 57]
            if dg:
                i = r.choice(dg)
                cands += [line[:i] + r.choice(["\u0663", "\uff13", "\u0969", "\u00b3"]).encode("utf-8") + line[i + 1:]] * 2
            u = r.choice(cands)
        else:
            u = gens.unit(r, k)
        units.append((k, u))
    lines = ["vcan " + hexb(u) for _, u in units]
    model = common.drive(lines) if ctx.driver_ok else [None] * len(lines)
    for (k, u), ml in zip(units, model):
        can = any(bool(mod.DataHandler(None, u).can_handle()) for mod in (mini_vidas, se1520))
        ref = gens.is_vendor_line(u)
        n.case({"unit": hexb(u), "class": k})
        n.count(k)
        n.count("in-format" if ref else "not-in-format")
        if can and not ref:
            n.fail({"unit": hexb(u), "class": k}, "a unit that is not in a vendor line format is taken over by a vendor converter",
                   "not-taken-over/near-miss")
        elif ref and not can:
            n.fail({"unit": hexb(u), "class": k}, "a line in a vendor format is not recognised by its converter",
                   "not-taken-over/refused")
        if k in ("ENQ", "EOT", "final", "inter") and can:
            n.fail({"unit": hexb(u), "class": k}, "an ordinary ASTM unit (%s) is taken over by a vendor converter" % k, "not-taken-over/ordinary")
        if ml is not None and ml != "ok %d" % (1 if can else 0):
            n.disagree({"unit": hexb(u)}, "ok %d" % (1 if can else 0), ml)
    streams.append(n)
    return streams


def search(ctx, disagreements):
    return []
