# -*- coding: utf-8 -*-
"""C07 - Encoded messages are well-formed E1381 frames and decode back to their records."""
from harness import common, codecio, oracles, gens
from harness.common import Stream, hexb

PID = "C07"
LEAN_MODULES = ["Astm.Proofs.C07", "Astm.State.C07", "Astm.Surface.C07"]
THEOREMS = [
    "Astm.C07.encode_message_shape", "Astm.C07.encoded_checksum_verifies", "Astm.C07.decode_encode_message",
    "Astm.C07.iter_encode_numbering", "Astm.C07.latin1_lawful", "Astm.C07.ascii_lawful", "Astm.C07.utf8_lawful", "Astm.C07.cp1251_lawful",
    "Astm.C07.shipped_encodings_lawful", "Astm.C07.example_message",
    "Astm.C07.anchored_code_keeps_no_other_state", "Astm.C07.anchored_code_keeps_its_signatures",
]
RULE = ("record lists over canonical field trees (text, null, components, repeated components, numbers) x encodings "
        "{latin-1, utf-8, cp1251, ascii} x sequence numbers 0..64; bounded-exhaustive small trees over a 5-symbol "
        "alphabet and seeded larger ones; exploratory: non-canonical trees (bytes, strings inside repeats, None inside "
        "repeats, un-encodable text); non-trivial = has components or repeats and a non-ASCII character")
LEVEL_NOTE = ("proof for every lawful encoding, with the latin-1, ascii, utf-8 (core String.toUTF8/fromUTF8?) and cp1251 "
              "(table regenerated from Python's codec) instances proved lawful: shape, verifying checksum, "
              "decode(encode) = id on canonical trees, numbering")
ASSUMPTIONS = ["that core Lean's UTF-8 codec and the regenerated cp1251 table behave like Python's codecs is tied by the "
               "correspondence streams (same bytes, same errors), not proved"]


def shape_ok(msg, seq, recs_encoded):
    """STX, frame number (seq mod 8) as one digit, records separated and terminated by CR, ETX, checksum, CR LF"""
    item = str(seq % 8).encode() + b"\r".join(recs_encoded) + b"\r\x03"
    return msg == b"\x02" + item + gens.checksum(item) + b"\r\n"


def int_as_text(f):
    if isinstance(f, bool):
        return f
    if isinstance(f, int):
        return str(f)
    if isinstance(f, list):
        return [int_as_text(x) for x in f]
    return f


def run(ctx):
    from senaite.astm import codec
    r = ctx.rng("C07")
    streams = []
    s = Stream("roundtrip")
    cases = []
    # bounded-exhaustive small trees: records of 1-2 fields over a small set of field values
    small_fields = [None, "a", "\xe9", ["a", "b"], [None, "b"], [["a"], ["b", "c"]], [[None], ["a"]], 7]
    for f1 in small_fields:
        for f2 in small_fields:
            for seq in (0, 1, 7, 8, 9, 63, 64):
                cases.append(([[f1, f2]], "latin-1", seq))
                cases.append(([[f1], [f2]], "utf-8", seq))
    for _ in range(30000 if ctx.thorough else 3000):
        enc = r.choice(codecio.ENCODINGS)
        recs = codecio.canonical_records(r, enc)
        if r.random() < 0.2:
            recs[0][0] = r.randrange(-5, 1000)
        seq = r.randrange(0, 65)
        cases.append((recs, enc, seq))
        # the same records in every other encoding that can represent them, one after the other in this process
        for other in codecio.ENCODINGS:
            if other != enc and codecio.encodable_in(recs, other) and r.random() < 0.7:
                cases.append((recs, other, seq))
    lines, impls, metas = [], [], []
    for recs, enc, seq in cases:
        if r.random() < 0.04:
            codecio.failing_encode(r, enc)
        case = {"records": codecio.records_wire(recs), "encoding": enc, "seq": seq}
        s.case(case, nontrivial=codecio.is_rich(recs))
        s.count(enc)
        ok, msg = codecio.ok_or_err(codec.encode_message, seq, recs, enc)
        if not ok:
            s.fail(case, "encode_message raised %s on canonical records" % msg, "roundtrip/encode-raises")
            continue
        enc_recs = [codec.encode_record(rec, enc) for rec in recs]
        if not shape_ok(msg, seq, enc_recs):
            s.fail(dict(case, message=hexb(msg)), "encoded message is not STX seq%8 records CR ETX checksum CR LF", "roundtrip/shape")
        if not oracles.checksum_ok(msg):
            s.fail(dict(case, message=hexb(msg)), "encoded message does not carry a verifying checksum", "roundtrip/checksum")
        ok2, back = codecio.ok_or_err(codec.decode_message, msg, enc)
        exp = [[int_as_text(f) for f in rec] for rec in recs]
        if not ok2 or back[0] != seq % 8 or back[1] != exp or back[2].encode() != msg[-4:-2]:
            s.fail(dict(case, message=hexb(msg), decoded=repr(back)[:300]),
                   "decode_message(encode_message(seq, records)) is not (seq mod 8, records, checksum)", "roundtrip/not-inverse")
        if codecio.ok_or_err(codec.decode, msg, enc) != (True, exp):
            s.fail(dict(case, message=hexb(msg)), "codec.decode does not return the records", "roundtrip/decode")
        if ok2 and r.random() < 0.3:
            # a caller changes the lists it was given in place; decoding the same bytes again returns the records again
            for rec_ in back[1]:
                for f_ in rec_:
                    if isinstance(f_, list):
                        for x_ in f_:
                            if isinstance(x_, list):
                                x_.append("changed")
                        f_.append("changed")
                rec_.append("changed")
            again = codecio.ok_or_err(codec.decode_message, msg, enc)
            if again[0] is not True or again[1][1] != exp:
                s.fail(dict(case, message=hexb(msg), second=repr(again)[:300]),
                       "decoding the same message a second time (after the first result was modified in place) gives other records",
                       "roundtrip/decode-again")
        lines.append(codecio.model_line("em", enc, seq, recs))
        impls.append("ok " + hexb(msg))
        metas.append(case)
        lines.append(codecio.model_line("dm", enc, msg))
        impls.append(codecio.impl_line("dm", enc, msg))
        metas.append(case)
    model = common.drive(lines) if ctx.driver_ok else [None] * len(lines)
    for l, i, m, meta in zip(lines, impls, model, metas):
        if m is not None and codecio.canon_model(m) != i:
            s.disagree(dict(meta, line=l[:120]), i[:300], m[:300])
    streams.append(s)

    it = Stream("iter_encode-numbering")
    lines, impls, metas = [], [], []
    for _ in range(5000 if ctx.thorough else 800):
        enc = r.choice(codecio.ENCODINGS)
        recs = [codecio.canonical_record(r, enc, r.choice([1, 2, 3])) for _ in range(r.choice([1, 2, 3, 5, 9, 12]))]
        seq = r.randrange(0, 65)
        case = {"records": codecio.records_wire(recs), "encoding": enc, "seq": seq}
        it.case(case, nontrivial=len(recs) > 1 and seq >= 8)
        size = r.choice([None, None, 20, 40, 100])
        case["size"] = size
        ok, frames = codecio.ok_or_err(lambda: list(codec.iter_encode(recs, enc, size, seq)))
        if not ok:
            it.fail(case, "iter_encode raised %s" % frames, "iter/raises")
            continue
        for i, f in enumerate(frames):
            if f[1:2] != str((seq + i) % 8).encode():
                it.fail(dict(case, frames=[hexb(x) for x in frames]),
                        "frame %d numbered %r, expected %d" % (i, f[1:2], (seq + i) % 8), "iter/numbering")
                break
            if size is None and codecio.ok_or_err(codec.decode_message, f, enc)[0] is not True:
                it.fail(dict(case, frame=hexb(f)), "a frame of iter_encode does not decode", "iter/decode")
                break
        lines.append(codecio.model_line("ienc", enc, size, seq, recs))
        impls.append("ok " + " ".join(hexb(x) for x in frames))
        metas.append(case)
    model = common.drive(lines) if ctx.driver_ok else [None] * len(lines)
    for l, i, m, meta in zip(lines, impls, model, metas):
        if m is not None and codecio.canon_model(m) != i:
            it.disagree(meta, i[:300], m[:300])
    streams.append(it)

    # calls that leave the encoding to the package default: the default is latin-1 (every byte 0x00-0xFF is a character)
    dflt = Stream("default-encoding")
    for _ in range(3000 if ctx.thorough else 400):
        recs = codecio.canonical_records(r, "latin-1")
        seq = r.randrange(0, 65)
        case = {"records": codecio.records_wire(recs), "seq": seq, "encoding": "(default)"}
        dflt.case(case, nontrivial=codecio.is_rich(recs))
        a = codecio.ok_or_err(codec.encode_message, seq, recs)
        b = codecio.ok_or_err(codec.encode_message, seq, recs, "latin-1")
        if a != b:
            dflt.fail(dict(case, default=repr(a)[:200], latin1=repr(b)[:200]),
                      "encode_message without an encoding argument differs from encode_message(..., 'latin-1')", "default/encode")
            continue
        if a[0]:
            exp = [[int_as_text(f) for f in rec] for rec in recs]
            for how, got in (("decode_message", codecio.ok_or_err(lambda: codec.decode_message(a[1])[1])),
                             ("decode", codecio.ok_or_err(codec.decode, a[1])),
                             ("decode(encoding=...)", codecio.ok_or_err(lambda: codec.decode(a[1], encoding="latin-1")))):
                if got != (True, exp):
                    dflt.fail(dict(case, message=hexb(a[1]), got=repr(got)[:200]), "%s with the default encoding does not return the records" % how,
                              "default/decode")
                    break
    # every byte is text under the default
    allb = bytes(x for x in range(256) if x not in (13, 124, 92, 94))
    got = codecio.ok_or_err(codec.decode_record, allb)
    if got != (True, [allb.decode("latin-1")]):
        dflt.fail({"record": hexb(allb)}, "decode_record without an encoding argument does not read every byte as the latin-1 character", "default/all-bytes")
    streams.append(dflt)

    # numbers a program puts into a record are written as their own decimal text (2.0 is not 2)
    from harness.props import C08
    streams.append(C08.numbers_stream(ctx, ctx.rng("C07.numbers")))
    x = Stream("exploratory-noncanonical", in_domain=False)
    lines, impls, metas = [], [], []
    weird = [[["a", None]], [[None, None]], [[["a", "b"]]], [b"\xff\xfe", "x"], [["€"]], [[["x"], ["y", None]]],
             [""], [[""]], [["a", ""]], [[[None], [None]]], []]
    for rec in weird:
        for enc in codecio.ENCODINGS:
            for kind in ("em",):
                lines.append(codecio.model_line("em", enc, 3, [rec]))
                impls.append(codecio.impl_line("em", enc, 3, [rec]))
                metas.append({"records": codecio.records_wire([rec]), "encoding": enc})
                x.case(metas[-1])
    for _ in range(500):
        enc = r.choice(codecio.ENCODINGS)
        other = r.choice(codecio.ENCODINGS)
        rec = [codecio.text(r, other) for _ in range(3)]
        lines.append(codecio.model_line("em", enc, 1, [rec]))
        impls.append(codecio.impl_line("em", enc, 1, [rec]))
        metas.append({"records": codecio.records_wire([rec]), "encoding": enc})
        x.case(metas[-1])
    model = common.drive(lines) if ctx.driver_ok else [None] * len(lines)
    for l, i, m, meta in zip(lines, impls, model, metas):
        if m is not None and codecio.canon_model(m) != i:
            x.disagree(meta, i[:300], m[:300])
    streams.append(x)
    return streams


def search(ctx, disagreements):
    return []
