# -*- coding: utf-8 -*-
"""C20 - Record objects are independent values."""
import copy
import json

from harness import common, codecio, schemaio
from harness.common import Stream, hexb

PID = "C20"
LEAN_MODULES = ["Astm.Proofs.C20", "Astm.State.C20", "Astm.Surface.C20"]
THEOREMS = [
    "Astm.C20.no_shared_mutable_defaults", "Astm.C20.mutation_leaves_other_records_unchanged",
    "Astm.C20.construct_is_pure_and_isolated", "Astm.C20.step_preserves_independence",
    "Astm.C20.history_keeps_independence", "Astm.C20.fresh_record_independent_of_history",
    "Astm.C20.records_isolated_after_any_history", "Astm.C20.shared_default_leaks", "Astm.C20.example_list_surgery", "Astm.C20.checked_step_preserves_independence",
    "Astm.C20.anchored_code_keeps_no_other_state", "Astm.C20.anchored_code_keeps_its_signatures",
]
RULE = ("for every record class of every schema that has component or repeated fields (and a sample of the others): "
        "seeded histories of construct / set a component sub-value / set a sub-value of the i-th occurrence / append an "
        "occurrence / assign a component / assign None (then append through the returned default) on previously created "
        "records; after every operation all live records and a fresh record built from fixed input are rendered on the "
        "implementation and on the Lean heap model; oracle: only the targeted record may change, the fresh record always "
        "renders the same; non-trivial = mutates a component of a record built with that field absent")
LEVEL_NOTE = ("proof: in the heap model records never share objects after any operation history (given that no field declares "
              "a shared mutable default, decided on the regenerated tables), so operations on one record never change another "
              "and a fresh record renders to the pure wrap value; tie = correspondence of the heap model with real record objects")
ASSUMPTIONS = ["operations outside the modelled set (slice assignment, sorting, a list view or an occurrence object handed from "
               "one record to another, copy.deepcopy) are judged by the oracle only (stream views-and-copies)"]


def text_subs(f):
    return [s for s in f["sub"] if s["kind"] in ("text", "plain") and s["length"] is None]


def run_history(r, module, letter, spec, cls, n_ops, stream, ctx, lines, pend):
    from senaite.astm import codec
    recs = []          # real objects
    ops_wire = []
    renders = []       # impl renderings after each op: list of list of dict
    fixed_raw, _ = schemaio.gen_record(common.rng("C20.fixed.%s.%s" % (module, letter)), spec, fill=0.3)
    fresh_ref = None
    comp_fields = [f for f in spec["fields"] if f["shape"] == "component" and text_subs(f)]
    rep_fields = [f for f in spec["fields"] if f["shape"] == "repeated" and text_subs(f)]
    json_fields = [f for f in spec["fields"] if f["shape"] == "scalar" and f["scalar"]["kind"] == "jsonList"]
    absent_mutation = False
    oracle_msg = None
    NOW = "20240101000000"

    def render_all():
        out = []
        for x in recs:
            d = x.to_dict()
            if "timestamp" in d and isinstance(d["timestamp"], str) and d["timestamp"] not in planted_ts:
                pass
            out.append(d)
        return out
    planted_ts = set()
    shared_input = [None]
    for step in range(n_ops):
        kind = r.choice(["C", "C", "S", "RS", "AP", "AC", "N", "FRESH", "FAILC", "JR", "RL", "RL"] + (["JR", "JR"] if json_fields else [])) if recs else "C"
        try:
            before = [copy.deepcopy(x.to_dict()) for x in recs]
        except Exception as e:  # noqa
            if oracle_msg is None:
                oracle_msg = ("render-raises", "a record that was constructed without error cannot be rendered (%s: %s)"
                              % (type(e).__name__, str(e)[:80]))
            break
        target = None
        try:
            if kind in ("C", "FRESH"):
                raw = fixed_raw if kind == "FRESH" else schemaio.gen_record(r, spec, fill=r.choice([0.2, 0.6]))[0]
                # give header records an explicit timestamp so that the clock does not enter the comparison
                rec_list = codec.decode_record(raw)
                if kind == "C" and shared_input[0] is not None and r.random() < 0.25:
                    # the very same input objects (nested lists included) are handed to a second record: the records
                    # must not end up sharing them
                    rec_list = shared_input[0]
                names = [f["name"] for f in spec["fields"]]
                if "timestamp" in names:
                    i = names.index("timestamp")
                    rec_list = rec_list + [None] * (i + 1 - len(rec_list))
                    if rec_list[i] is None:
                        rec_list[i] = NOW
                obj = cls(*rec_list)
                shared_input[0] = rec_list
                recs.append(obj)
                ops_wire.append("C %s %s %s" % (letter, codecio.cps(NOW), codecio.record_wire(rec_list)))
                if kind == "FRESH":
                    d = obj.to_dict()
                    if fresh_ref is None:
                        fresh_ref = d
                    elif d != fresh_ref and oracle_msg is None:
                        oracle_msg = ("fresh", "a record built from fixed input renders differently after earlier operations")
            elif kind == "FAILC":
                # a construction that is refused half-way (an early field violates its constraint, later fields carry
                # values): it creates nothing and leaves nothing behind for later constructions
                raw = schemaio.gen_record(r, spec, fill=0.95)[0]
                bad_list = codec.decode_record(raw)
                idx = next((i for i, f in enumerate(spec["fields"]) if i > 0 and f["shape"] == "scalar"
                            and f["scalar"]["kind"] in ("integer", "date", "datetime", "time", "set", "constant")), None)
                if idx is None:
                    continue
                bad_list = bad_list + [None] * (idx + 1 - len(bad_list))
                bad_list[idx] = "~invalid~"
                try:
                    cls(*bad_list)
                except Exception:
                    pass
                continue
            elif kind == "JR" and json_fields:
                # the list read from a JSON list field is the caller's own copy: changing it changes no record
                f = r.choice(json_fields)
                target = r.randrange(len(recs))
                got_list = getattr(recs[target], f["name"])
                if isinstance(got_list, list):
                    got_list.append("MUTATED")
                    got_list.sort(key=repr)
                for x in recs:
                    a_ = x.to_dict()
                    rd = getattr(x, f["name"])
                    if a_.get(f["name"]) is not None and rd != json.loads(a_[f["name"]]) and oracle_msg is None:
                        oracle_msg = ("read-differs", "after a list read from one record was changed in place, reading %s of a "
                                      "record gives %r while it renders %r" % (f["name"], rd, a_[f["name"]]))
                continue
            elif kind == "S" and comp_fields:
                f = r.choice(comp_fields)
                target = r.randrange(len(recs))
                sub = r.choice(text_subs(f))
                v = r.choice([schemaio.rand_text(r), None])
                comp = getattr(recs[target], f["name"])
                if comp is None:
                    continue
                setattr(comp, sub["name"], v)
                if before[target].get(f["name"]) is not None:
                    absent_mutation = True
                ops_wire.append("S %d %s %s %s" % (target, f["name"], sub["name"], "n" if v is None else "t" + codecio.cps(v)))
            elif kind == "RS" and rep_fields:
                f = r.choice(rep_fields)
                target = r.randrange(len(recs))
                lst = getattr(recs[target], f["name"])
                if not lst:
                    continue
                i = r.randrange(len(lst))
                sub = r.choice(text_subs(f))
                v = r.choice([schemaio.rand_text(r), None])
                setattr(lst[i], sub["name"], v)
                ops_wire.append("RS %d %s %d %s %s" % (target, f["name"], i, sub["name"], "n" if v is None else "t" + codecio.cps(v)))
            elif kind == "AP" and rep_fields:
                f = r.choice(rep_fields)
                target = r.randrange(len(recs))
                lst = getattr(recs[target], f["name"])
                stored = recs[target]._data.get(f["name"])
                items, _ = schemaio.gen_component(r, f["sub"], force=True)
                lst.append(items)
                if stored is None:
                    # the field was None: the list handed out is a default copy, the record must not change
                    ops_wire.append("AP %d %s -" % (target, f["name"]))
                else:
                    kvs = recs[target].to_dict()[f["name"]][-1]
                    ops_wire.append("AP %d %s %s" % (target, f["name"], ",".join(
                        "%s=%s" % (k, "n" if v is None else "t" + codecio.cps(v)) for k, v in kvs.items())))
            elif kind == "RL" and rep_fields:
                # list surgery on the occurrences: insert / delete / pop / replace / extend / += / *=
                f = r.choice(rep_fields)
                target = r.randrange(len(recs))
                if recs[target]._data.get(f["name"]) is None:
                    continue
                lst = getattr(recs[target], f["name"])
                n0 = len(lst)
                how = r.choice(["insert", "del", "pop", "setitem", "extend", "iadd", "imul"])
                fresh = lambda: schemaio.gen_component(r, f["sub"], force=True)[0]   # noqa
                sel, new_at = None, []
                if how == "insert":
                    i = r.randrange(n0 + 1)
                    lst.insert(i, fresh())
                    sel = ["o%d" % k for k in range(i)] + ["n0"] + ["o%d" % k for k in range(i, n0)]
                    new_at = [i]
                elif how in ("del", "pop") and n0:
                    i = r.randrange(n0)
                    if how == "del":
                        del lst[i]
                    else:
                        lst.pop(i)
                    sel = ["o%d" % k for k in range(n0) if k != i]
                elif how == "setitem" and n0:
                    i = r.randrange(n0)
                    lst[i] = fresh()
                    sel = ["o%d" % k if k != i else "n0" for k in range(n0)]
                    new_at = [i]
                elif how in ("extend", "iadd"):
                    k = r.choice([1, 2])
                    items = [fresh() for _ in range(k)]
                    if how == "extend":
                        lst.extend(items)
                    else:
                        lst += items
                    sel = ["o%d" % j for j in range(n0)] + ["n%d" % j for j in range(k)]
                    new_at = list(range(n0, n0 + k))
                elif how == "imul" and n0 <= 3:
                    lst *= 2
                    sel = ["o%d" % j for j in range(n0)] * 2
                else:
                    continue
                rendered = recs[target].to_dict()[f["name"]]
                news = "+".join(",".join("%s=%s" % (k, "n" if v is None else "t" + codecio.cps(v)) for k, v in rendered[i].items())
                                for i in new_at) or "-"
                ops_wire.append("RL %d %s %s %s" % (target, f["name"], news, ",".join(sel) or "-"))
            elif kind == "AC" and comp_fields:
                f = r.choice(comp_fields)
                target = r.randrange(len(recs))
                items, _ = schemaio.gen_component(r, f["sub"], force=True)
                setattr(recs[target], f["name"], items)
                kvs = recs[target].to_dict()[f["name"]]
                ops_wire.append("AC %d %s %s" % (target, f["name"], ",".join(
                    "%s=%s" % (k, "n" if v is None else "t" + codecio.cps(v)) for k, v in kvs.items())))
            elif kind == "N" and (rep_fields or comp_fields):
                f = r.choice(rep_fields + comp_fields)
                target = r.randrange(len(recs))
                setattr(recs[target], f["name"], None)
                ops_wire.append("N %d %s" % (target, f["name"]))
            else:
                continue
        except Exception as e:  # noqa  (an operation the real classes refuse: not part of the history)
            continue
        try:
            after = [x.to_dict() for x in recs]
        except Exception as e:  # noqa
            if kind in ("C", "FRESH") and oracle_msg is None:
                oracle_msg = ("render-raises", "a record that was constructed without error cannot be rendered (%s: %s)"
                              % (type(e).__name__, str(e)[:80]))
            break
        renders.append(after)
        # what an attribute read gives agrees with what is rendered (JSON list fields hand out parsed lists)
        for x, a_ in zip(recs, after):
            for f in json_fields:
                try:
                    rd = getattr(x, f["name"])
                except Exception:
                    rd = "unreadable"
                if a_.get(f["name"]) is not None and rd != json.loads(a_[f["name"]]) and oracle_msg is None:
                    oracle_msg = ("read-differs", "reading %s gives %r, the record renders %r" % (f["name"], rd, a_[f["name"]]))
        # oracle: only the targeted record may have changed
        for i, (b, a) in enumerate(zip(before, after)):
            if i != target and a != b and oracle_msg is None:
                oracle_msg = ("interference", "operation %r changed record %d which it does not target" % (ops_wire[-1][:60], i))
    case = {"module": module, "letter": letter, "ops": ops_wire}
    stream.case(case, nontrivial=absent_mutation)
    for o in ops_wire:
        stream.count("op " + o.split(" ", 1)[0])
    if oracle_msg:
        stream.fail(case, oracle_msg[1], "histories/" + oracle_msg[0])
    if ops_wire:
        lines.append("heap %s %s" % (module, " ; ".join(ops_wire)))
        pend.append((case, "ok " + " ## ".join(" || ".join(schemaio.dict_wire(d) for d in rs) for rs in renders)))


def run(ctx):
    r = ctx.rng("C20")
    s = Stream("histories")
    lines, pend = [], []
    per = 60 if ctx.thorough else 6
    for module, letter, spec in schemaio.record_specs():
        cls = schemaio.real_class(module, letter)
        if cls is None:
            continue
        rich = any(f["shape"] != "scalar" or f["scalar"]["kind"] == "jsonList" for f in spec["fields"])
        for _ in range(per if rich else 1):
            run_history(r, module, letter, spec, cls, r.choice([4, 8, 14]), s, ctx, lines, pend)
    model = common.drive(lines) if ctx.driver_ok else [None] * len(lines)
    for (case, got), ml in zip(pend, model):
        if ml is not None and ml != got:
            # locate the first differing op
            a, b = got.split(" ## "), ml.split(" ## ")
            k = next((i for i, (x, y) in enumerate(zip(a, b)) if x != y), min(len(a), len(b)))
            s.disagree(dict(case, first_difference_at_op=k), (a[k] if k < len(a) else "")[:300], (b[k] if k < len(b) else "")[:300])

    # schema defaults must not be changed by any history: compare the declared defaults before / after
    d = Stream("schema-defaults-unchanged")
    from senaite.astm import fields as F
    for module, letter, spec in schemaio.record_specs():
        cls = schemaio.real_class(module, letter)
        fresh1 = None
        try:
            fresh1 = cls().to_dict()
        except Exception:
            continue
        # hammer: mutate everything reachable from a default-constructed record
        x = cls()
        for f in spec["fields"]:
            try:
                v = getattr(x, f["name"])
                if f["shape"] == "component" and v is not None:
                    for sub in text_subs(f):
                        setattr(v, sub["name"], "MUTATED")
                if f["shape"] == "repeated":
                    setattr(x, f["name"], None)
                    lst = getattr(x, f["name"])
                    if isinstance(lst, list):
                        lst.append(["MUTATED"])
                        for it in lst:
                            if isinstance(it, list):
                                it.append("MUTATED")
            except Exception:
                pass
        d.case({"module": module, "letter": letter})
        try:
            fresh2 = cls().to_dict()
        except Exception as e:  # noqa
            d.fail({"module": module, "letter": letter, "before": repr(fresh1)[:200], "error": repr(e)[:200]},
                   "after modifying a default-constructed record, a new default-constructed record cannot be created "
                   "any more (the declared default was changed)", "defaults/leak")
            continue
        if json.dumps(fresh1, default=str, sort_keys=True).replace(str(fresh1.get("timestamp")), "T") != \
                json.dumps(fresh2, default=str, sort_keys=True).replace(str(fresh2.get("timestamp")), "T"):
            d.fail({"module": module, "letter": letter, "before": repr(fresh1)[:200], "after": repr(fresh2)[:200]},
                   "modifying a default-constructed record changed what later default-constructed records contain",
                   "defaults/leak")
    streams = [s, d]

    streams.append(order_stream(ctx))
    streams.append(foreign_schema_stream(ctx))
    streams.append(views_and_copies_stream(ctx))
    streams.append(caller_inputs_stream(ctx))
    return streams


def views_and_copies_stream(ctx):
    """Two ways in which a second record comes from a first one (oracle only, outside the Lean heap model):
    the live list view of a repeated field of record a is given to record b (assignment, constructor argument), and a
    record is duplicated with copy.deepcopy.  Afterwards list-level operations (views) resp. any modification (deep
    copies) on one of the two must leave the other's rendering unchanged."""
    v = Stream("views-and-copies")
    r = ctx.rng("C20.views")
    from senaite.astm import codec
    per = 40 if ctx.thorough else 8
    for module, letter, spec in schemaio.record_specs():
        cls = schemaio.real_class(module, letter)
        if cls is not None:
            accessor_cases(v, r, module, letter, spec, cls, 6 if ctx.thorough else 2)
        rep_fields = [f for f in spec["fields"] if f["shape"] == "repeated" and text_subs(f)]
        comp_fields = [f for f in spec["fields"] if f["shape"] == "component" and text_subs(f)]
        if cls is None or not (rep_fields or comp_fields):
            continue
        names = [f["name"] for f in spec["fields"]]
        twin_cases(v, r, module, letter, spec, cls, comp_fields + rep_fields, 6 if ctx.thorough else 2)
        for _ in range(per):
            try:
                la = codec.decode_record(schemaio.gen_record(r, spec, fill=0.9)[0])
                lb = codec.decode_record(schemaio.gen_record(r, spec, fill=0.5)[0])
                a = cls(*la)
            except Exception:
                continue
            how = r.choice(["assign-view", "construct-view", "construct-view-kw", "deepcopy", "deepcopy"])
            f = r.choice(rep_fields) if rep_fields and (how != "deepcopy" or r.random() < 0.7) else None
            case = {"module": module, "letter": letter, "how": how, "field": f["name"] if f else None,
                    "a": hexb(codec.encode_record(la, "utf-8") if _encodable(la) else b""), "ops": []}
            try:
                if how == "deepcopy":
                    b = copy.deepcopy(a)
                    try:
                        same = b.to_dict() == a.to_dict()
                    except Exception:
                        same = False
                    if not same:
                        v.case(case)
                        v.fail(case, "a deep copy of a record renders differently from the record", "views-and-copies/copy-differs")
                        continue
                elif f is None:
                    continue
                else:
                    view = getattr(a, f["name"])
                    if not isinstance(view, list) or a._data.get(f["name"]) is None:
                        continue
                    if how == "assign-view":
                        b = cls(*lb)
                        setattr(b, f["name"], view)
                    elif how == "construct-view":
                        i = names.index(f["name"])
                        args = (lb + [None] * (i + 1 - len(lb)))
                        args[i] = view
                        b = cls(*args)
                    else:
                        b = cls(**{f["name"]: view})
            except Exception:
                continue
            v.case(case)
            v.count(how)
            # operations on one of the two; the other must not change
            for _k in range(r.randrange(1, 6)):
                tgt, other = (a, b) if r.random() < 0.5 else (b, a)
                try:
                    before = copy.deepcopy(other.to_dict())
                except Exception as e:  # noqa
                    v.fail(dict(case, error=repr(e)[:120]), "a record that was constructed / copied without error cannot be rendered",
                           "views-and-copies/render-raises")
                    break
                try:
                    if how == "deepcopy":
                        op = r.choice(["occ-sub", "comp-sub", "append", "pop", "assign"])
                    else:
                        op = r.choice(["append", "insert", "pop", "del", "replace", "iadd", "imul", "remove", "add", "mul",
                                       "queries"])
                    ff = f or (r.choice(rep_fields) if rep_fields and op not in ("comp-sub",) else None)
                    if op == "comp-sub" or ff is None:
                        if not comp_fields:
                            continue
                        cf = r.choice(comp_fields)
                        comp = getattr(tgt, cf["name"])
                        if comp is None or tgt._data.get(cf["name"]) is None:
                            continue
                        setattr(comp, r.choice(text_subs(cf))["name"], schemaio.rand_text(r))
                        op = "comp-sub"
                    else:
                        lst = getattr(tgt, ff["name"])
                        if tgt._data.get(ff["name"]) is None:
                            continue
                        items, _ = schemaio.gen_component(r, ff["sub"], force=True)
                        if op == "occ-sub":
                            if not lst:
                                continue
                            setattr(lst[r.randrange(len(lst))], r.choice(text_subs(ff))["name"], schemaio.rand_text(r))
                        elif op == "append":
                            lst.append(items)
                        elif op == "insert":
                            lst.insert(r.randrange(len(lst) + 1), items)
                        elif op == "pop":
                            if not lst:
                                continue
                            lst.pop(r.randrange(len(lst)))
                        elif op == "del":
                            if not lst:
                                continue
                            del lst[r.randrange(len(lst))]
                        elif op == "replace":
                            if not lst:
                                continue
                            lst[r.randrange(len(lst))] = items
                        elif op == "iadd":
                            lst += [items]
                        elif op == "imul":
                            lst *= 2
                        elif op == "remove":
                            if not lst:
                                continue
                            lst.remove(lst[r.randrange(len(lst))])
                        elif op == "add":
                            _new = lst + [items]                     # (an expression: what it does to `tgt` is tgt's business)
                            len(_new)
                        elif op == "mul":
                            _new = lst * 2
                            len(_new)
                        elif op == "queries":
                            olst = getattr(other, ff["name"])
                            _ = (lst == olst, lst != olst, items in lst, lst.count(items), len(lst), list(lst), str(lst), repr(lst))
                            try:
                                _ = (lst < olst, lst <= olst, lst > olst, lst >= olst)
                                lst.index(items)
                            except Exception:
                                pass
                        elif op == "assign":
                            setattr(tgt, ff["name"], [items])
                except Exception:
                    continue
                case["ops"].append("%s on %s" % (op, "a" if tgt is a else "b"))
                try:
                    after = other.to_dict()
                except Exception as e:  # noqa
                    after = "unrenderable: %r" % (e,)
                if after != before:
                    v.fail(dict(case, before=repr(before)[:300], after=repr(after)[:300]),
                           "%s on one record changed the record that was %s" % (
                               op, "deep-copied from / to it" if how == "deepcopy" else "given its list view"),
                           "views-and-copies/" + ("deepcopy" if how == "deepcopy" else "view"))
                    break
    return v


def caller_inputs_stream(ctx):
    """Values a caller hands to records as plain dicts / lists (a component by name, the occurrences of a repeated
    field as dicts or lists, through the constructor, an attribute, an index or a list operation): the caller's object
    is the same afterwards, and a second record given the very same object renders like the first (nothing of the first
    use is left in, or taken out of, the object that both share)."""
    v = Stream("caller-owned-inputs")
    r = ctx.rng("C20.inputs")
    per = 24 if ctx.thorough else 5
    for module, letter, spec in schemaio.record_specs():
        cls = schemaio.real_class(module, letter)
        fs = [f for f in spec["fields"] if f["shape"] in ("component", "repeated") and f.get("sub")]
        if cls is None or not fs:
            continue
        names = [f["name"] for f in spec["fields"]]
        for _ in range(per):
            f = r.choice(fs)
            sub_names = [sb["name"] for sb in f["sub"]]

            def one():
                items, _ = schemaio.gen_component(r, f["sub"], force=True)
                if r.random() < 0.6:
                    return dict((n, x) for n, x in zip(sub_names, items) if x is not None or r.random() < 0.5)
                return list(items)
            if f["shape"] == "component":
                value = one()
                routes = ["attr", "kw", "pos", "index"]
            else:
                value = [one() for _k in range(r.randrange(1, 4))]
                routes = ["attr", "kw", "pos", "index", "append", "extend", "insert", "iadd"]
            route = r.choice(routes)
            before = copy.deepcopy(value)
            case = {"module": module, "letter": letter, "field": f["name"], "route": route, "value": repr(before)[:300]}

            def give(val):
                i = names.index(f["name"])
                if route == "attr":
                    rec = cls()
                    setattr(rec, f["name"], val)
                elif route == "kw":
                    rec = cls(**{f["name"]: val})
                elif route == "pos":
                    rec = cls(*([None] * i + [val]))
                elif route == "index":
                    rec = cls()
                    rec[i] = val
                else:
                    rec = cls()
                    setattr(rec, f["name"], [])
                    lst = getattr(rec, f["name"])
                    if route == "append":
                        for x in val:
                            lst.append(x)
                    elif route == "extend":
                        lst.extend(val)
                    elif route == "insert":
                        for x in reversed(val):
                            lst.insert(0, x)
                    else:
                        lst += val
                return rec
            try:
                a = give(value)
                da = a.to_dict()[f["name"]]
            except Exception:
                continue          # (not every generated value is admissible through every route)
            v.case(case, nontrivial=any(isinstance(x, dict) for x in ([value] if f["shape"] == "component" else value)))
            v.count(route)
            if value != before:
                v.fail(dict(case, afterwards=repr(value)[:300]), "the caller's %s was changed by giving it to a record"
                       % type(value).__name__, "caller-owned-inputs/input-changed")
                continue
            try:
                b = give(value)
                db = b.to_dict()[f["name"]]
            except Exception as e:  # noqa
                db = "raises %s" % type(e).__name__
            if db != da:
                v.fail(dict(case, first=repr(da)[:300], second=repr(db)[:300]),
                       "a second record given the same object does not render like the first", "caller-owned-inputs/second-use")
                continue
            # the first record is not touched by what the second one does with its own copy
            try:
                tgt = getattr(b, f["name"])
                if f["shape"] == "repeated" and tgt:
                    tgt = tgt[0]
                for sb in text_subs(f)[:2]:
                    setattr(tgt, sb["name"], "CHANGED")
                if a.to_dict()[f["name"]] != da:
                    v.fail(dict(case), "changing the second record's value changed the first record",
                           "caller-owned-inputs/shared")
            except Exception:
                pass
    return v


def accessor_cases(v, r, module, letter, spec, cls, n):
    """whatever a read accessor of a record hands out (keys, values, items, the rendered dict, iteration) is the caller's:
    rearranging or emptying it changes no record and no record built later"""
    from senaite.astm import codec
    for _ in range(n):
        try:
            la = codec.decode_record(schemaio.gen_record(r, spec, fill=0.7)[0])
            names = [f["name"] for f in spec["fields"]]
            if "timestamp" in names:
                i = names.index("timestamp")
                la = la + [None] * (i + 1 - len(la))
                la[i] = la[i] or "20240101000000"
            a = cls(*la)
            ref = copy.deepcopy(a.to_dict())
        except Exception:
            continue
        acc = r.choice(["keys", "values", "items", "to_dict", "list", "to_astm"])
        case = {"module": module, "letter": letter, "how": "accessor:" + acc, "ops": []}
        try:
            got = {"keys": a.keys, "values": a.values, "items": a.items, "to_dict": a.to_dict, "list": lambda: list(a),
                   "to_astm": a.to_astm}[acc]()
            if isinstance(got, dict):
                for k_ in list(got)[::2]:
                    del got[k_]
                got["~new~"] = 1
            elif isinstance(got, list):
                got.reverse()
                if got:
                    got.pop()
                got.append("~new~")
                for x in got:
                    if isinstance(x, list) and acc == "to_astm":      # (values / items hold the live list views)
                        x.append("~new~")
        except Exception:
            continue
        v.case(case)
        v.count("accessor")
        try:
            now_a = a.to_dict()
            fresh = cls(*la).to_dict()
            eq = (a == cls(*la))
        except Exception as e:  # noqa
            v.fail(dict(case, error=repr(e)[:120]), "after the value handed out by %s() was rearranged, records of the class "
                   "cannot be built / rendered any more" % acc, "views-and-copies/accessor")
            continue
        if now_a != ref or fresh != ref or not eq:
            v.fail(dict(case, before=repr(ref)[:200], after=repr(now_a)[:200], fresh=repr(fresh)[:200]),
                   "rearranging what %s() handed out changed the record, a record built afterwards from the same input, or "
                   "their equality" % acc, "views-and-copies/accessor")


def twin_cases(v, r, module, letter, spec, cls, fields_, n):
    """a component object of another, equally declared component class (every Component.build() call makes its own
    class: the order's and the result's `test` of one instrument) is handed to two records; each keeps its own copy"""
    for _ in range(n):
        f = r.choice(fields_)
        desc = dict(cls._fields).get(f["name"])
        own = getattr(desc, "mapping", None) or getattr(getattr(desc, "field", None), "mapping", None)
        if own is None:
            continue
        try:
            twin = own.__mro__[1].build(*[copy.copy(fd) for _n, fd in own._fields])
            items, _m = schemaio.gen_component(r, f["sub"], force=True)
            obj_in = twin(*items)
            a, b = cls(), cls()
            single = f["shape"] == "component"
            setattr(a, f["name"], obj_in if single else [obj_in])
            setattr(b, f["name"], obj_in if single else [obj_in])
        except Exception:
            continue
        case = {"module": module, "letter": letter, "how": "twin-component-object", "field": f["name"], "values": items, "ops": []}
        v.case(case)
        v.count("twin-component-object")
        for _k in range(2):
            who = r.choice(["a", "b", "given"])
            tgt_comp = obj_in if who == "given" else (getattr({"a": a, "b": b}[who], f["name"]) if single
                                                        else getattr({"a": a, "b": b}[who], f["name"])[0])
            others = [x for n_, x in (("a", a), ("b", b)) if n_ != who]
            try:
                before = [copy.deepcopy(o.to_dict()) for o in others]
                setattr(tgt_comp, r.choice(text_subs(f))["name"], schemaio.rand_text(r) or "x")
                after = [o.to_dict() for o in others]
            except Exception:
                continue
            case["ops"].append("sub-value set through " + who)
            if after != before:
                v.fail(dict(case, before=repr(before)[:200], after=repr(after)[:200]),
                       "a sub-value set through %s changed another record that was given the same component object of an "
                       "equally declared class" % ("the object handed in" if who == "given" else "record " + who),
                       "views-and-copies/twin")
                break


def _encodable(lst):
    try:
        from senaite.astm import codec
        codec.encode_record(lst, "utf-8")
        return True
    except Exception:
        return False


def foreign_schema_stream(ctx):
    """records of the shipped schemas must not depend on what *other* schemas were declared and filled in the process:
    a site declares its own record classes with the same field kinds and every option (lengths on sets and integers,
    inner fields, defaults); the shipped classes render fixed inputs the same before and after that"""
    from senaite.astm import codec, fields as F
    from senaite.astm.mapping import Component, Record
    fs = Stream("after-foreign-schemas")
    r = ctx.rng("C20.foreign")

    def snapshot():
        out = {}
        for module, letter, spec in schemaio.record_specs():
            cls = schemaio.real_class(module, letter)
            if cls is None:
                continue
            rr = common.rng("C20.foreign.%s.%s" % (module, letter))
            for k, fill in enumerate((0.0, 0.5, 0.95, 0.96)):
                raw = schemaio.gen_record(rr, spec, fill=min(fill, 0.95))[0]
                rec = codec.decode_record(raw)
                if fill == 0.96:
                    # every set field takes the longest member of its value set (whatever the draw gave it)
                    for i_, f_ in enumerate(spec["fields"]):
                        sc_ = f_.get("scalar") or {}
                        if f_["shape"] == "scalar" and sc_.get("kind") == "set":
                            members = [v_[2:] for v_ in sc_.get("values", []) if v_.startswith("s:")]
                            if members:
                                rec = rec + [None] * (i_ + 1 - len(rec))
                                rec[i_] = max(members, key=len)
                names = [n for n, _f in cls._fields]
                if "timestamp" in names:
                    i = names.index("timestamp")
                    rec = rec + [None] * (i + 1 - len(rec))
                    rec[i] = rec[i] or "20240101000000"
                try:
                    out[(module, letter, k)] = (raw.hex(), cls(*rec).to_dict())
                except Exception as e:  # noqa
                    out[(module, letter, k)] = (raw.hex(), "ERR " + type(e).__name__)
        return out
    before = snapshot()
    # --- a foreign schema using every field kind and option, filled with valid and invalid values in every way
    Comp = Component.build(F.TextField(name="a", length=3), F.IntegerField(name="n", length=2),
                           F.SetField(name="s", values=("x", "yy"), length=2),
                           F.SetField(name="si", values=(1, 2, 30), field=F.IntegerField(), length=2))
    Rec = Record.build(F.ConstantField(name="type", default="Z"),
                       F.SetField(name="flag", values=("A", "BB", "CCC"), length=3, default="A"),
                       F.SetField(name="flag1", values=("A", "B"), length=1),
                       F.SetField(name="num", values=(1, 2, 3), field=F.IntegerField(), length=1),
                       F.TextField(name="t", length=5, default="d"), F.IntegerField(name="i", length=4),
                       F.DateTimeField(name="ts"), F.DateField(name="d"), F.TimeField(name="tm"),
                       F.ComponentField(Comp, name="c"), F.RepeatedComponentField(Comp, name="rc"),
                       F.ConstantField(name="k", default=7, field=F.IntegerField()), F.NotUsedField(name="u"),
                       F.DecimalField(name="dec"), F.TextField(name="t2", length=1), F.Field(name="plain", length=2))
    vals = ["A", "BB", "CCC", "DDDD", "1", "2", "30", "007", "x", "yy", "abc", "abcdef", "20230101", "20230101120000", "1230",
            "", None, ["x", "1", "yy", "2"], [["abc", "1"], ["a"]], ["toolong", "x"], 5, 1, "Z", "7", " 7 "]
    names = [n for n, _f in Rec._fields]
    for _ in range(400 if ctx.thorough else 120):
        kw = {}
        for n in r.sample(names, r.randrange(0, 6)):
            kw[n] = r.choice(vals)
        try:
            obj = Rec(**kw)
        except Exception:
            obj = None
        if obj is not None:
            for n in r.sample(names, 3):
                try:
                    setattr(obj, n, r.choice(vals))
                except Exception:
                    pass
            try:
                obj.rc.append(r.choice(vals))
                obj.rc.extend([r.choice(vals)])
                obj.to_dict()
                obj.to_astm()
            except Exception:
                pass
    # the last things the site does are the narrowest ones (whatever they install process-wide stays installed)
    for kw_ in ({"flag1": "A"}, {"num": 1}, {"t2": "x"}, {"c": ["abc", "1", "x", "1"]}):
        try:
            Rec(**kw_).to_dict()
        except Exception:
            pass
    # a schema of the site that declares *values* as the default of a component: records built without that component
    # each have their own; changing one changes neither another record nor what later records start with
    try:
        Rec2 = Record.build(F.ConstantField(name="type", default="Y"),
                            F.ComponentField(Comp, name="cd", default=["abc", "1"]),
                            F.RepeatedComponentField(Comp, name="rd", default=[["x", "2"]]))
        a_, b_ = Rec2(), Rec2()
        ref_ = copy.deepcopy(b_.to_dict())
        a_.cd.a = "zzz"
        a_.cd.n = 9
        if a_._data.get("rd"):
            a_.rd[0].a = "q"
            a_.rd.append(["y", "3"])
        c_ = Rec2()
        fs.case({"module": "site schema", "letter": "Y", "declared_default": "component values"})
        if b_.to_dict() != ref_ or c_.to_dict() != ref_:
            fs.fail({"module": "site schema", "record_b": repr(b_.to_dict())[:200], "new_record": repr(c_.to_dict())[:200], "expected": repr(ref_)[:200]},
                    "changing the component of one record changed another record / the declared default of a schema that "
                    "declares component values as default", "foreign/declared-default")
    except Exception as e:  # noqa
        fs.case({"module": "site schema", "error": repr(e)[:100]})
    # what a record refuses or stores does not depend on what was rendered or stored before: a required value that is
    # missing is refused every time (not only at the first rendering of the class); a long decimal is stored with all
    # its digits also after floats went through decimal fields; the interpreter's decimal context is left alone
    import decimal as _decimal
    try:
        prec0 = _decimal.getcontext().prec
        RecQ = Record.build(F.ConstantField(name="type", default="Q"), F.TextField(name="must", required=True),
                            F.TextField(name="opt"), F.ComponentField(Component.build(F.TextField(name="a", required=True),
                                                                                      F.TextField(name="b")), name="c"))
        outcomes = []
        for step in ("first", "again", "complete", "after-complete", "component", "component-again"):
            try:
                if step == "complete":
                    RecQ(must="a", c=["x", "y"]).to_dict()
                    RecQ(must="a", c=["x", "y"]).to_astm()
                    continue
                if step.startswith("component"):
                    RecQ(must="a", c=[None, "y"]).to_dict()
                else:
                    (RecQ(opt="x").to_dict if step != "again" else RecQ(opt="x").to_astm)()
                outcomes.append((step, "rendered"))
            except ValueError:
                outcomes.append((step, "refused"))
        fs.case({"module": "site schema", "letter": "Q", "required": "must, c.a"})
        if any(o != "refused" for _s, o in outcomes):
            fs.fail({"module": "site schema", "outcomes": outcomes},
                    "a record with a required value missing is refused at one rendering and rendered at another: %r" % (outcomes,),
                    "foreign/required-check")
        big = _decimal.Decimal("1234567890.123456789012")
        d1 = Rec(dec=big).to_dict()
        for fl in (0.25, 3.14, 1e-07):
            Rec(dec=fl).to_dict()
        d2 = Rec(dec=big).to_dict()
        fs.case({"module": "site schema", "letter": "Z", "decimal": str(big)})
        if d1 != d2 or _decimal.getcontext().prec != prec0:
            fs.fail({"module": "site schema", "before": repr(d1.get("dec")), "after": repr(d2.get("dec")),
                     "context_precision": [prec0, _decimal.getcontext().prec]},
                    "the same decimal is stored differently after floats were assigned to decimal fields (or the "
                    "interpreter's decimal context was changed)", "foreign/decimal-context")
            _decimal.getcontext().prec = prec0
    except Exception as e:  # noqa
        fs.case({"module": "site schema", "error": repr(e)[:100]})
    after = snapshot()
    for key in before:
        fs.case({"module": key[0], "letter": key[1], "input": before[key][0]})
        if after.get(key) != before[key]:
            fs.fail({"module": key[0], "letter": key[1], "record": before[key][0], "before": repr(before[key][1])[:300],
                     "after": repr(after.get(key, (None, None))[1])[:300]},
                    "a record of a shipped schema renders differently after records of an unrelated schema were declared "
                    "and filled in the same process", "foreign/differs")
            break
    return fs


def order_stream(ctx):
    # "regardless of what was built before" across classes: anything remembered per class (or per base class) depends on
    # which class a process happens to use first, so the same fixed records are built in fresh interpreters in the
    # orders  generic classes -> instrument classes, instrument -> generic, and instrument alone; every record must
    # render the same in all three
    o = Stream("fresh-process-order")
    import subprocess
    import sys
    jobs = {}
    inputs = {}
    for module, letter, spec in schemaio.record_specs():
        rr = common.rng("C20.order.%s.%s" % (module, letter))
        raws = [schemaio.gen_record(rr, spec, fill=f)[0] for f in (0.0, 0.3, 0.9)]
        inputs.setdefault(module, []).append((letter, [x.hex() for x in raws]))
    mods = [m for m in inputs if m != "generic"]
    if not ctx.thorough:
        mods = mods[ctx.rng("C20.order").randrange(3)::3] + [m for m in mods if m in ("roche_cobas_c111", "horiba_yumizen_h5xx", "sysmex_xn")]
        mods = sorted(set(mods))
    prog = r'''
import sys, json
sys.path.insert(0, %r)
import logging; logging.disable(logging.CRITICAL)
import warnings; warnings.simplefilter("ignore")
from harness import schemaio
from senaite.astm import codec
order, inputs = json.loads(sys.stdin.read())
out = {}
from senaite.astm.wrapper import Wrapper
from harness.props import C11
from harness import gens
for module in order:
    # the record classes as a received message gets them: through the Wrapper's schema selection on the
    # instrument's own header frame (the shipped dump) resp. a header naming no supported model
    header = (gens.frame(1, b"H|\\^&|||ACME^1|||||||P|1|20240101120000", True) if module == "generic"
              else C11.dump_frames(C11.DUMP_OF[module])[0])
    mapping = Wrapper([header]).mapping
    for letter, raws in inputs[module]:
        cls = mapping.get(letter)
        if cls is None:
            out["%%s/%%s/missing" %% (module, letter)] = "record type not in the selected mapping"
            continue
        if cls is not schemaio.real_class(module, letter):
            out["%%s/%%s/class" %% (module, letter)] = "selected class %%r is not the one %%s declares" %% (cls, module)
        for k, raw in enumerate(raws):
            rec = codec.decode_record(bytes.fromhex(raw))
            try:
                d = cls(*rec).to_dict()
                names = [n for n, _f in cls._fields]
                if "timestamp" in names:
                    i = names.index("timestamp")
                    if not (len(rec) > i and rec[i] is not None):
                        d["timestamp"] = "<now>"
                out["%%s/%%s/%%d" %% (module, letter, k)] = d
            except Exception as e:
                out["%%s/%%s/%%d" %% (module, letter, k)] = "ERR " + type(e).__name__
print(json.dumps(out, sort_keys=True, default=str))
''' % common.VERIF
    procs = []
    for m in mods:
        for name, order in (("generic-first", ["generic", m]), ("instrument-first", [m, "generic"]), ("alone", [m])):
            p_ = subprocess.Popen([sys.executable, "-c", prog], stdin=subprocess.PIPE, stdout=subprocess.PIPE,
                                  stderr=subprocess.DEVNULL, cwd=common.VERIF)
            p_.stdin.write(json.dumps([order, {k: inputs[k] for k in order}]).encode())
            p_.stdin.close()
            procs.append((m, name, p_))
    results = {}
    for m, name, p_ in procs:
        outb = p_.stdout.read()
        p_.wait()
        try:
            results[(m, name)] = json.loads(outb.decode())
        except Exception:
            results[(m, name)] = None
    for m in mods:
        base = results.get((m, "alone"))
        for name in ("generic-first", "instrument-first"):
            got = results.get((m, name))
            case = {"module": m, "order": name}
            o.case(case)
            if base is None or got is None:
                o.fail(case, "the interpreter building the records in this order failed", "order/crash")
                continue
            diff = sorted(k for k in set(base) | set(x for x in got if x.startswith(m + "/")) if got.get(k) != base.get(k))
            if diff:
                k0 = diff[0]
                o.fail(dict(case, record=k0, alone=json.dumps(base.get(k0))[:300], in_this_order=json.dumps(got.get(k0))[:300],
                            input=(dict(inputs[m])[k0.split("/")[1]][int(k0.split("/")[2])] if k0.split("/")[2].isdigit() else None)),
                       "record %s renders differently when other classes were used first in the process" % k0,
                       "order/differs")
        gbase = None
        for name in ("generic-first", "instrument-first"):
            got = results.get((m, name)) or {}
            g = {k: v for k, v in got.items() if k.startswith("generic/")}
            if gbase is None:
                gbase = g
            elif g != gbase:
                k0 = [k for k in g if g[k] != gbase.get(k)][0]
                o.fail({"module": m, "record": k0}, "generic record %s renders differently depending on whether %s was used first" % (k0, m),
                       "order/generic-differs")
    return o


def search(ctx, disagreements):
    return []
