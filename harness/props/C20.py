# -*- coding: utf-8 -*-
"""C20 - Record objects are independent values."""
import copy
import json

from harness import common, codecio, schemaio
from harness.common import Stream, hexb

PID = "C20"
LEAN_MODULES = ["Astm.Proofs.C20"]
THEOREMS = [
    "Astm.C20.no_shared_mutable_defaults", "Astm.C20.mutation_leaves_other_records_unchanged",
    "Astm.C20.construct_is_pure_and_isolated", "Astm.C20.step_preserves_independence",
    "Astm.C20.history_keeps_independence", "Astm.C20.fresh_record_independent_of_history",
    "Astm.C20.records_isolated_after_any_history", "Astm.C20.shared_default_leaks",
]
RULE = ("for every record class of every schema that has component or repeated fields (and a sample of the others): "
        "seeded histories of construct / set a component sub-value / set a sub-value of the i-th occurrence / append an "
        "occurrence / assign a component / assign None (then append through the returned default) on previously created "
        "records; after every operation all live records and a fresh record built from fixed input are rendered on the "
        "implementation and on the Lean heap model; oracle: only the targeted record may change, the fresh record always "
        "renders the same; non-trivial = mutates a component of a record built with that field absent")
LEVEL_NOTE = ("proof: in the heap model records never share objects after any operation history (given that no field declares "
              "a shared mutable default, decided on the regenerated tables), so operations on one record never change another "
              "and a fresh record renders to the pure wrap value; tie = correspondence of the heap model with real record objects")
ASSUMPTIONS = ["operations outside the modelled set (Proxy list surgery such as insert / pop / slice assignment) are not covered"]


def text_subs(f):
    return [s for s in f["sub"] if s["kind"] in ("text", "plain") and s["length"] is None]


def run_history(r, module, letter, spec, cls, n_ops, stream, ctx, lines, pend):
    from senaite.astm import codec
    recs = []          # real objects
    ops_wire = []
    renders = []       # impl renderings after each op: list of list of dict
    fixed_raw, _ = schemaio.gen_record(common.rng("C20.fixed.%s.%s" % (module, letter)), spec, fill=0.3)
    fresh_ref = None
    comp_fields = [f for f in spec["fields"] if f["shape"] == "component" and text_subs(f)]
    rep_fields = [f for f in spec["fields"] if f["shape"] == "repeated" and text_subs(f)]
    absent_mutation = False
    oracle_msg = None
    NOW = "20240101000000"

    def render_all():
        out = []
        for x in recs:
            d = x.to_dict()
            if "timestamp" in d and isinstance(d["timestamp"], str) and d["timestamp"] not in planted_ts:
                pass
            out.append(d)
        return out
    planted_ts = set()
    for step in range(n_ops):
        kind = r.choice(["C", "C", "S", "RS", "AP", "AC", "N", "FRESH"]) if recs else "C"
        try:
            before = [copy.deepcopy(x.to_dict()) for x in recs]
        except Exception as e:  # noqa
            if oracle_msg is None:
                oracle_msg = ("render-raises", "a record that was constructed without error cannot be rendered (%s: %s)"
                              % (type(e).__name__, str(e)[:80]))
            break
        target = None
        try:
            if kind in ("C", "FRESH"):
                raw = fixed_raw if kind == "FRESH" else schemaio.gen_record(r, spec, fill=r.choice([0.2, 0.6]))[0]
                # give header records an explicit timestamp so that the clock does not enter the comparison
                rec_list = codec.decode_record(raw)
                names = [f["name"] for f in spec["fields"]]
                if "timestamp" in names:
                    i = names.index("timestamp")
                    rec_list = rec_list + [None] * (i + 1 - len(rec_list))
                    if rec_list[i] is None:
                        rec_list[i] = NOW
                obj = cls(*rec_list)
                recs.append(obj)
                ops_wire.append("C %s %s %s" % (letter, codecio.cps(NOW), codecio.record_wire(rec_list)))
                if kind == "FRESH":
                    d = obj.to_dict()
                    if fresh_ref is None:
                        fresh_ref = d
                    elif d != fresh_ref and oracle_msg is None:
                        oracle_msg = ("fresh", "a record built from fixed input renders differently after earlier operations")
            elif kind == "S" and comp_fields:
                f = r.choice(comp_fields)
                target = r.randrange(len(recs))
                sub = r.choice(text_subs(f))
                v = r.choice([schemaio.rand_text(r), None])
                comp = getattr(recs[target], f["name"])
                if comp is None:
                    continue
                setattr(comp, sub["name"], v)
                if before[target].get(f["name"]) is not None:
                    absent_mutation = True
                ops_wire.append("S %d %s %s %s" % (target, f["name"], sub["name"], "n" if v is None else "t" + codecio.cps(v)))
            elif kind == "RS" and rep_fields:
                f = r.choice(rep_fields)
                target = r.randrange(len(recs))
                lst = getattr(recs[target], f["name"])
                if not lst:
                    continue
                i = r.randrange(len(lst))
                sub = r.choice(text_subs(f))
                v = r.choice([schemaio.rand_text(r), None])
                setattr(lst[i], sub["name"], v)
                ops_wire.append("RS %d %s %d %s %s" % (target, f["name"], i, sub["name"], "n" if v is None else "t" + codecio.cps(v)))
            elif kind == "AP" and rep_fields:
                f = r.choice(rep_fields)
                target = r.randrange(len(recs))
                lst = getattr(recs[target], f["name"])
                stored = recs[target]._data.get(f["name"])
                items, _ = schemaio.gen_component(r, f["sub"], force=True)
                lst.append(items)
                if stored is None:
                    # the field was None: the list handed out is a default copy, the record must not change
                    ops_wire.append("AP %d %s -" % (target, f["name"]))
                else:
                    kvs = recs[target].to_dict()[f["name"]][-1]
                    ops_wire.append("AP %d %s %s" % (target, f["name"], ",".join(
                        "%s=%s" % (k, "n" if v is None else "t" + codecio.cps(v)) for k, v in kvs.items())))
            elif kind == "AC" and comp_fields:
                f = r.choice(comp_fields)
                target = r.randrange(len(recs))
                items, _ = schemaio.gen_component(r, f["sub"], force=True)
                setattr(recs[target], f["name"], items)
                kvs = recs[target].to_dict()[f["name"]]
                ops_wire.append("AC %d %s %s" % (target, f["name"], ",".join(
                    "%s=%s" % (k, "n" if v is None else "t" + codecio.cps(v)) for k, v in kvs.items())))
            elif kind == "N" and (rep_fields or comp_fields):
                f = r.choice(rep_fields + comp_fields)
                target = r.randrange(len(recs))
                setattr(recs[target], f["name"], None)
                ops_wire.append("N %d %s" % (target, f["name"]))
            else:
                continue
        except Exception as e:  # noqa  (an operation the real classes refuse: not part of the history)
            continue
        try:
            after = [x.to_dict() for x in recs]
        except Exception as e:  # noqa
            if kind in ("C", "FRESH") and oracle_msg is None:
                oracle_msg = ("render-raises", "a record that was constructed without error cannot be rendered (%s: %s)"
                              % (type(e).__name__, str(e)[:80]))
            break
        renders.append(after)
        # oracle: only the targeted record may have changed
        for i, (b, a) in enumerate(zip(before, after)):
            if i != target and a != b and oracle_msg is None:
                oracle_msg = ("interference", "operation %r changed record %d which it does not target" % (ops_wire[-1][:60], i))
    case = {"module": module, "letter": letter, "ops": ops_wire}
    stream.case(case, nontrivial=absent_mutation)
    if oracle_msg:
        stream.fail(case, oracle_msg[1], "histories/" + oracle_msg[0])
    if ops_wire:
        lines.append("heap %s %s" % (module, " ; ".join(ops_wire)))
        pend.append((case, "ok " + " ## ".join(" || ".join(schemaio.dict_wire(d) for d in rs) for rs in renders)))


def run(ctx):
    r = ctx.rng("C20")
    s = Stream("histories")
    lines, pend = [], []
    per = 60 if ctx.thorough else 6
    for module, letter, spec in schemaio.record_specs():
        cls = schemaio.real_class(module, letter)
        if cls is None:
            continue
        rich = any(f["shape"] != "scalar" for f in spec["fields"])
        for _ in range(per if rich else 1):
            run_history(r, module, letter, spec, cls, r.choice([4, 8, 14]), s, ctx, lines, pend)
    model = common.drive(lines) if ctx.driver_ok else [None] * len(lines)
    for (case, got), ml in zip(pend, model):
        if ml is not None and ml != got:
            # locate the first differing op
            a, b = got.split(" ## "), ml.split(" ## ")
            k = next((i for i, (x, y) in enumerate(zip(a, b)) if x != y), min(len(a), len(b)))
            s.disagree(dict(case, first_difference_at_op=k), (a[k] if k < len(a) else "")[:300], (b[k] if k < len(b) else "")[:300])

    # schema defaults must not be changed by any history: compare the declared defaults before / after
    d = Stream("schema-defaults-unchanged")
    from senaite.astm import fields as F
    for module, letter, spec in schemaio.record_specs():
        cls = schemaio.real_class(module, letter)
        fresh1 = None
        try:
            fresh1 = cls().to_dict()
        except Exception:
            continue
        # hammer: mutate everything reachable from a default-constructed record
        x = cls()
        for f in spec["fields"]:
            try:
                v = getattr(x, f["name"])
                if f["shape"] == "component" and v is not None:
                    for sub in text_subs(f):
                        setattr(v, sub["name"], "MUTATED")
                if f["shape"] == "repeated":
                    setattr(x, f["name"], None)
                    lst = getattr(x, f["name"])
                    if isinstance(lst, list):
                        lst.append(["MUTATED"])
                        for it in lst:
                            if isinstance(it, list):
                                it.append("MUTATED")
            except Exception:
                pass
        d.case({"module": module, "letter": letter})
        try:
            fresh2 = cls().to_dict()
        except Exception as e:  # noqa
            d.fail({"module": module, "letter": letter, "before": repr(fresh1)[:200], "error": repr(e)[:200]},
                   "after modifying a default-constructed record, a new default-constructed record cannot be created "
                   "any more (the declared default was changed)", "defaults/leak")
            continue
        if json.dumps(fresh1, default=str, sort_keys=True).replace(str(fresh1.get("timestamp")), "T") != \
                json.dumps(fresh2, default=str, sort_keys=True).replace(str(fresh2.get("timestamp")), "T"):
            d.fail({"module": module, "letter": letter, "before": repr(fresh1)[:200], "after": repr(fresh2)[:200]},
                   "modifying a default-constructed record changed what later default-constructed records contain",
                   "defaults/leak")
    return [s, d]


def search(ctx, disagreements):
    return []
