# -*- coding: utf-8 -*-
"""C04 - Connections are isolated under every interleaving of their events."""
import itertools

from harness import common, gens, recv, oracles, impl
from harness.common import Stream
from harness.props import C05

PID = "C04"
LEAN_MODULES = ["Astm.Proofs.C04", "Astm.State.C04", "Astm.Surface.C04"]
THEOREMS = [
    "Astm.C04.isolation", "Astm.C04.receiver_isolation", "Astm.C04.queue_is_merge_of_per_connection_deliveries",
    "Astm.C04.other_connections_untouched", "Astm.C04.footprint_per_instance", "Astm.C04.example_interleaving",
    "Astm.C04.anchored_code_keeps_no_other_state", "Astm.C04.anchored_code_keeps_its_signatures",
]
RULE = ("k = 2..5 real ASTMProtocol instances sharing one queue and one virtual clock, their timed event sequences "
        "(ENQ, single and multi-frame messages, corrupted frames, EOT, silence past the timeout, disconnects) merged "
        "in a seeded random order (thorough: all merge orders of 2-3 connections x <= 4 events); every connection's "
        "projection (replies, closes, exceptions, timer closes, deliveries) is compared with the same connection "
        "served alone (implementation) and with the Lean model of a single connection; the shared queue must be the "
        "merge of the per-connection deliveries; non-trivial = >= 2 connections with overlapping transfers")
LEVEL_NOTE = ("proof (partial): isolation for all merge orders of the modelled events and any number of connections, under the "
              "footprint premises decided on the table regenerated from protocol.py/server.py; asyncio callback scheduling, "
              "TCP segmentation and the GIL are not modelled")
ASSUMPTIONS = ["a data unit is whatever one data_received call gets (TCP segmentation not modelled)",
               "asyncio runs one callback at a time (no preemption inside a protocol method)"]
TIMEOUT = 20


SENDERS = [b"cobas", b"XN-550^1.0", b"LabHub^gw", b""]


def conn_script(r):
    """timed event sequence of one connection, times relative (gaps)"""
    evs = []
    for _ in range(r.choice([1, 1, 2])):
        evs.append(("r", gens.ENQ))
        for mi in range(r.choice([0, 1, 2])):
            text = None
            if r.random() < 0.5:
                # several connections report under the same sender (identical analysers, a shared middleware name)
                text = b"H|\\^&|||" + r.choice(SENDERS) + b"|||||host||P|1|20240101120000\r" + gens.record_text(r, letter_first=True)
            frames, _ = gens.message_frames(r, seq=r.randrange(8), parts=r.choice([1, 2, 3]), text=text)
            for f in frames:
                if r.random() < 0.15:
                    evs.append(("r", gens.corrupt(r, f)[0]))
                evs.append(("r", f))
        end = r.choice(["eot", "eot", "eot", "stall", "lost", "abandon"])
        if end == "eot":
            evs.append(("r", gens.EOT))
        elif end == "stall":
            evs.append(("stall",))
        elif end == "lost":
            evs.append(("l",))
            break
        elif end == "abandon":
            evs.append(("r", gens.frame(1, gens.text_bytes(r, 4), final=False)))
            evs.append(("stall",))
    return [e for e in evs if not (e[0] == "r" and gens.is_vendor_line(e[1]))]


def merge_random(r, scripts):
    idx = [0] * len(scripts)
    order = []
    remaining = [c for c, s in enumerate(scripts) for _ in s]
    r.shuffle(remaining)
    for c in remaining:
        order.append((c, scripts[c][idx[c]]))
        idx[c] += 1
    return order


def timed(order, r=None, gaps=None):
    """assign global non-decreasing times; a 'stall' is a silence of timeout+1 on that connection"""
    t = 0
    out = []
    last = {}
    for i, (c, e) in enumerate(order):
        gap = gaps[i] if gaps else (r.choice([0, 1, 1, 2, 3]) if r else 1)
        t += gap
        if e[0] == "stall":
            t = max(t, last.get(c, 0) + TIMEOUT + 1)
            out.append((c, ("i", t)))
        elif e[0] == "l":
            out.append((c, ("l", t)))
            last[c] = t
        else:
            # keep each connection's own gaps below the timeout so that only 'stall' causes a timer close
            if c in last and t - last[c] >= TIMEOUT:
                # another connection's stall pushed the global clock: this connection has been silent too long;
                # that is a legitimate timer close of c as well (both runs must agree on it)
                pass
            out.append((c, ("r", t, e[1])))
            last[c] = t
    return out


def run_system(fmt, k, events):
    """interleaved run: k real instances, one shared queue, one virtual clock. returns per-connection traces + queue log"""
    q = impl.ListQueue()
    conns = [impl.Conn(fmt=fmt, queue=q, timeout=TIMEOUT, peer=("10.0.0.%d" % (1 if SAME_HOST[0] else i + 1), 4000 + i)) for i in range(k)]
    traces = [[] for _ in range(k)]
    qlog = []      # (conn, item) in queue order
    for c, e in events:
        t = e[1]
        for i, cn in enumerate(conns):
            q0 = len(q.items)
            cl0 = cn.t.closes
            fired = cn.loop.advance(t)
            for f in fired:
                traces[i].append(("fired", f))
            if len(q.items) != q0:
                traces[i].append(("delivery-by-timer", len(q.items) - q0))
                qlog += [(i, it) for it in q.items[q0:]]
        if e[0] == "r":
            q0 = len(q.items)
            ob = conns[c].event(("d", e[2]))
            qlog += [(c, it) for it in q.items[q0:]]
            traces[c].append(("obs", canon(ob)))
        elif e[0] == "l":
            q0 = len(q.items)
            ob = conns[c].event(("L",))
            qlog += [(c, it) for it in q.items[q0:]]
            traces[c].append(("obs", canon(ob)))
    return traces, qlog, q.items


def canon(ob):
    return {"writes": [w.hex() for w in ob["writes"]], "exc": ob["exc"], "closes": ob["closes"],
            "delivered": [d if isinstance(d, str) else d.decode("latin-1") for d in ob["delivered"]]}


def masked(trace):
    """a trace with the header timestamps that defaulted to the wall clock masked (two runs read the clock at different times)"""
    return [(k, dict(v, delivered=[oracles.mask_now_json(d) for d in v["delivered"]])) if k == "obs" else (k, v) for k, v in trace]


def run_alone(fmt, events, peer_i=0):
    q = impl.ListQueue()
    cn = impl.Conn(fmt=fmt, queue=q, timeout=TIMEOUT, peer=("10.0.0.%d" % (1 if SAME_HOST[0] else peer_i + 1), 4000 + peer_i))
    trace = []
    for e in events:
        for f in cn.loop.advance(e[1]):
            trace.append(("fired", f))
        if e[0] == "r":
            trace.append(("obs", canon(cn.event(("d", e[2])))))
        elif e[0] == "l":
            trace.append(("obs", canon(cn.event(("L",)))))
    return trace, q.items


SAME_HOST = [False]       # connections of one host (analysers behind one serial converter) or of different hosts


def check_case(stream, fmt, k, events, ctx, meta):
    SAME_HOST[0] = len(events) % 2 == 1
    stream.count("same host" if SAME_HOST[0] else "different hosts")
    horizon = max(e[1][1] for e in events) + TIMEOUT + 5 if events else 0
    events = list(events) + [(c, ("i", horizon)) for c in range(k)]
    case = {"format": fmt, "connections": k, "timeout": TIMEOUT,
            "events": [[c, C05.tev_hex(e)] for c, e in events]}
    stream.case(case, nontrivial=meta.get("nontrivial", True))
    traces, qlog, qitems = run_system(fmt, k, events)
    lines = []
    for c in range(k):
        projc = [e for cc, e in events if cc == c]
        alone, aq = run_alone(fmt, projc, c)
        if masked(alone) != masked(traces[c]):
            # first difference
            i = 0
            ma, mt = masked(alone), masked(traces[c])
            while i < min(len(alone), len(traces[c])) and ma[i] == mt[i]:
                i += 1
            stream.fail(dict(case, connection=c),
                        "connection %d behaves differently when interleaved: entry %d is %r, alone it is %r"
                        % (c, i, traces[c][i] if i < len(traces[c]) else None, alone[i] if i < len(alone) else None),
                        signature="%s/projection-differs" % stream.name)
            return
        mine = [it for cc, it in qlog if cc == c]
        if [oracles.mask_now_json(x if isinstance(x, str) else x.decode("latin-1")) for x in mine] != \
                [oracles.mask_now_json(x if isinstance(x, str) else x.decode("latin-1")) for x in aq]:
            stream.fail(dict(case, connection=c), "queue items of connection %d differ from its deliveries when served alone" % c,
                        signature="%s/queue-differs" % stream.name)
            return
        lines.append("trecv %s %d %s" % (fmt, TIMEOUT, " ".join(C05.tev_hex(e) for e in projc)))
    if len(qitems) != len(qlog):
        stream.fail(case, "queue holds %d items but %d deliveries were observed" % (len(qitems), len(qlog)),
                    signature="%s/queue-count" % stream.name)
    return lines, traces


def compare_model(stream, pending, ctx):
    """pending: list of (case-lines, traces) ; model of each connection alone vs interleaved implementation"""
    if not ctx.driver_ok:
        return
    flat = [l for lines, _ in pending for l in lines]
    outs = common.drive(flat)
    pos = 0
    for lines, traces in pending:
        for c, l in enumerate(lines):
            ml = outs[pos]
            pos += 1
            if not ml.startswith("ok "):
                stream.disagree({"line": l[:200]}, "-", ml)
                continue
            mouts = ml[3:].split(" | ")[0].split(" ; ")
            # model trace in the same canonical form
            mt = []
            evs = l.split(" ")[3:]
            for ev, mo in zip(evs, mouts):
                parts = mo.split(" ")
                if parts[0] != "-":
                    mt += [("fired", int(x)) for x in parts[0].split(",")]
                if not ev.startswith("i:"):
                    o = recv.parse_model("ok " + " ".join(parts[1:]))[0]
                    mt.append(("obs", o))
            it = traces[c]
            ok = len(mt) == len(it)
            if ok:
                for a, b in zip(mt, it):
                    if a[0] != b[0]:
                        ok = False
                        break
                    if a[0] == "fired" and a[1] != b[1]:
                        ok = False
                        break
                    if a[0] == "obs":
                        ob = {"writes": [bytes.fromhex(w) for w in b[1]["writes"]], "exc": b[1]["exc"],
                              "closes": b[1]["closes"], "delivered": b[1]["delivered"]}
                        if a[1]["deliver"] is not None and a[1]["deliver"][0] == "json":
                            ob["delivered"] = [x.encode("latin-1") for x in ob["delivered"]]
                        if oracles.observe_matches(a[1], ob, recv.to_json_real):
                            ok = False
                            break
            if not ok:
                stream.disagree({"line": l[:300]}, "impl(interleaved) %r" % (it[:6],), "model(alone) %r" % (mt[:6],))


def run(ctx):
    r = ctx.rng("C04")
    s = Stream("random-merges")
    pending = []
    for _ in range(6000 if ctx.thorough else 700):
        k = r.choice([2, 2, 3, 4, 5])
        scripts = [conn_script(r) for _ in range(k)]
        order = merge_random(r, scripts)
        events = timed(order, r)
        overlapping = k >= 2 and all(len(sc) >= 2 for sc in scripts[:2])
        res = check_case(s, r.choice(["astm", "lis2a", "json"]), k, events, ctx, {"nontrivial": overlapping})
        s.count("k=%d" % k)
        if res:
            pending.append(res)
    compare_model(s, pending, ctx)
    streams = [s]

    # vendor lines (miniVidas, Spotchem) are converted by adapters looked up per unit: the same line may arrive on several
    # connections at the same time, in the middle of another connection's transfer.  Implementation served alone vs.
    # interleaved (the Lean model of the interleaving has no vendor hook).
    v = Stream("with-vendor-lines")
    from harness.props import C18

    class NoModel(object):
        driver_ok = False
    for _ in range(1500 if ctx.thorough else 200):
        pool = []
        while len(pool) < 2:
            line, tags = C18.mini_line(r)
            if "td" in tags and "tt" in tags:
                pool.append(line)
        pool.append(C18.spot_line(r)[0])
        k = r.choice([2, 2, 3])
        scripts = []
        for _c in range(k):
            sc = conn_script(r)
            for _j in range(r.choice([1, 1, 2])):
                sc.insert(r.randrange(0, len(sc) + 1), ("r", r.choice(pool)))
            # nothing after a disconnect
            if ("l",) in sc:
                sc = sc[:sc.index(("l",)) + 1]
            scripts.append(sc)
        events = timed(merge_random(r, scripts), r)
        check_case(v, r.choice(["astm", "lis2a"]), k, events, NoModel(), {"nontrivial": True})
    streams.append(v)

    # connections served by the protocol objects the server itself creates: the real server.main() runs in-process
    # (harness/servermain.py) and its protocol factory is played with connections that open, stall until the inactivity
    # timeout closes them, disconnect, and open again later, overlapping in time
    sf = Stream("server-factory")
    from harness import servermain
    for _ in range(400 if ctx.thorough else 50):
        k = r.choice([3, 4, 6])
        fmt = r.choice(["astm", "lis2a"])
        scripts = []
        for _c in range(k):
            sc = conn_script(r)
            if r.random() < 0.08:
                # a very large message (histogram data) followed at once by a small session on the same connection
                big = gens.frame(1, b"M|1|" + bytes(r.choice(b"0123456789abcdef") for _ in range(70000)), True)
                sc = [("r", gens.ENQ), ("r", big), ("r", gens.EOT), ("r", gens.ENQ), ("r", gens.frame(1, b"L|1|N", True)),
                      ("r", gens.EOT)] + sc
            if r.random() < 0.25:
                # a peer that violates the protocol (sends ACK / NAK, or EOT outside a transfer): the server refuses it with
                # an exception out of data_received, which costs that connection - and only that one
                sc.insert(r.randrange(0, len(sc) + 1), ("r", r.choice([gens.ACK, gens.NAK, gens.EOT + gens.EOT])))
            cut = [i for i, e_ in enumerate(sc) if e_[0] in ("stall", "l")]
            scripts.append(sc[:cut[0] + 1] if cut else sc)
        # strictly increasing global clock; a connection opens just before its first unit; some connections start
        # only after others have been closed by the timeout
        t = 0
        plan = []            # (t, c, action)
        per = {c: [] for c in range(k)}
        order = merge_random(r, scripts)
        started = set()
        last_seen = {}
        for c, e_ in order:
            t += r.choice([1, 2, 3])
            if c in last_seen and t - last_seen[c] == 15:
                t += 1            # a unit arriving exactly when the timer is due is scheduler dependent (excluded)
            if c not in started:
                started.add(c)
                if r.random() < 0.4:
                    t += 25                      # earlier stalled connections are closed by now
                plan.append((t - 0.5, c, ("open",)))
            last_seen[c] = t
            if e_[0] == "stall":
                per[c].append(("i", None))
            elif e_[0] == "l":
                plan.append((t, c, ("lost",)))
                per[c].append(("l", t))
            else:
                plan.append((t, c, ("data", e_[1])))
                per[c].append(("r", t, e_[1]))
        res = servermain.run_server_main(["-m", fmt], sorted(plan, key=lambda x: x[0]), settle=40)
        case = {"format": fmt, "connections": k, "plan": [[t_, c, a[0], a[1].hex() if len(a) > 1 else ""] for t_, c, a in sorted(plan, key=lambda x: x[0])]}
        sf.case(case, nontrivial=True)
        alone_items = []
        for c in range(k):
            p_t = res["conns"].get(c)
            if p_t is None:
                continue
            tr = p_t[1]
            # the same connection served alone by a protocol object of its own
            q = impl.ListQueue()
            cn = impl.Conn(fmt=fmt, queue=q, timeout=None, peer=("10.0.0.%d" % (c + 1), 4000 + c))
            t_open = [t_ for t_, cc, a in plan if cc == c and a[0] == "open"][0]
            cn.loop.now = t_open
            for h in cn.loop.handles:              # the timer armed by connection_made starts at the opening time
                h._when += t_open
            exp_replies, exp_close = [], None
            for e_ in per[c]:
                if e_[0] == "i":
                    fired = cn.loop.advance(10 ** 6)
                    exp_close = fired[0] if fired else None
                    break
                fired = cn.loop.advance(e_[1])
                if fired:
                    exp_close = fired[0]
                    break
                if e_[0] == "r":
                    ob = cn.event(("d", e_[2]))
                    exp_replies.append((e_[2], ob["writes"]))
                    if ob["closes"] or ob["exc"]:
                        break         # (asyncio closes a connection whose protocol raised out of data_received)
                else:
                    cn.event(("L",))
                    break
            got_replies = getattr(tr, "replies", [])[:len(exp_replies)]
            n_got = len(getattr(tr, "replies", []))
            if [(d, list(w)) for d, w in got_replies] != [(d, list(w)) for d, w in exp_replies] or n_got != len(exp_replies):
                sf.fail(dict(case, connection=c, got=[[d.hex(), [x.hex() for x in w]] for d, w in getattr(tr, "replies", [])][:12],
                             alone=[[d.hex(), [x.hex() for x in w]] for d, w in exp_replies][:12]),
                        "connection %d gets other replies from the server's protocol object than when served alone" % c,
                        "server-factory/replies")
                break
            # what the connection put on the shared queue, in its own order
            mine_alone = [x if isinstance(x, str) else x.decode("latin-1") for x in q.items]
            got_close = tr.close_times[0] if getattr(tr, "close_times", []) else None
            alone_items.append((c, mine_alone))
            if exp_close is not None and got_close != exp_close:
                sf.fail(dict(case, connection=c, closed_at=got_close, alone_closed_at=exp_close),
                        "connection %d is closed by the timer at %s, alone at %s" % (c, got_close, exp_close),
                        "server-factory/timer")
                break
        # the shared queue received the union of the per-connection deliveries, each connection's in its own order
        if not sf.oracle_failures or sf.oracle_failures[-1]["case"] is not case:
            log = [x if isinstance(x, str) else x.decode("latin-1") for x in res["queue_log"]]
            rest = list(log)
            ok_ = True
            for c, items in alone_items:
                # items of c must appear in `log` as a subsequence, in order
                pos = 0
                for it in items:
                    try:
                        pos = log.index(it, pos) + 1
                        rest.remove(it)
                    except ValueError:
                        ok_ = False
                        break
                if not ok_:
                    sf.fail(dict(case, connection=c, queued=len(log)),
                            "the deliveries of connection %d do not reach the shared queue completely and in their own order" % c,
                            "server-factory/queue-order")
                    break
            if ok_ and rest:
                sf.fail(dict(case, surplus=len(rest)), "the shared queue received items no connection delivers when served alone",
                        "server-factory/queue-surplus")
    streams.append(sf)

    # exhaustive merge orders of short scripts
    e = Stream("all-merge-orders")
    pending = []
    rr = ctx.rng("C04.small")
    n_sets = 12 if ctx.thorough else 3
    for _ in range(n_sets):
        k = rr.choice([2, 2, 3]) if ctx.thorough else 2
        f1, _ = gens.message_frames(rr, seq=1, parts=2)
        pool = [
            [("r", gens.ENQ), ("r", f1[0]), ("r", f1[1]), ("r", gens.EOT)],
            [("r", gens.ENQ), ("r", gens.frame(1, b"R|1|x", True)), ("stall",)],
            [("r", gens.ENQ), ("r", gens.frame(1, gens.text_bytes(rr, 3), final=False)), ("l",)],
            [("r", gens.ENQ), ("r", gens.EOT), ("r", gens.EOT)],
        ]
        scripts = [pool[rr.randrange(len(pool))][:4 if k == 2 else 3] for _ in range(k)]
        slots = [c for c, sc in enumerate(scripts) for _ in sc]
        seen = set()
        for perm in set(itertools.permutations(slots)):
            idx = [0] * k
            order = []
            for c in perm:
                order.append((c, scripts[c][idx[c]]))
                idx[c] += 1
            events = timed(order, None)
            res = check_case(e, "astm", k, events, ctx, {"nontrivial": True})
            if res:
                pending.append(res)
    compare_model(e, pending, ctx)
    streams.append(e)
    return streams


def search(ctx, disagreements):
    s = Stream("search")
    r = ctx.rng("C04.search")
    class NoModel(object):
        driver_ok = False
    for _ in range(4000):
        k = r.choice([2, 3])
        scripts = [conn_script(r) for _ in range(k)]
        events = timed(merge_random(r, scripts), r)
        check_case(s, r.choice(["astm", "lis2a", "json"]), k, events, NoModel(), {})
        if s.oracle_failures:
            break
    return s.oracle_failures


def replay(payload):
    case = payload.get("case", {})
    events = []
    for c, t in case.get("events", []):
        p = t.split(":")
        events.append((c, ("r", int(p[1]), common.unhex(p[2])) if p[0] == "r" else (p[0], int(p[1]))))
    s = Stream("replay")
    class C(object):
        driver_ok = False
    # the recorded events already contain the final idle period
    k = case.get("connections", 2)
    traces, qlog, qitems = run_system(case.get("format", "astm"), k, events)
    bad = 0
    for c in range(k):
        alone, aq = run_alone(case.get("format", "astm"), [e for cc, e in events if cc == c], c)
        print("connection %d: interleaved == alone: %s" % (c, alone == traces[c]))
        bad += alone != traces[c]
    return 1 if bad else 0
