# -*- coding: utf-8 -*-
"""Schema driven generators and oracles (C11, C12, C13, C20): records are generated from the committed
contract tables (contract/schemas.json), planted values are tracked per (field, sub-field, occurrence)
so that the positional oracle can ask for each of them back."""
import importlib
import json
import os

from harness import common, codecio

_CONTRACT = None


def contract():
    global _CONTRACT
    if _CONTRACT is None:
        with open(os.path.join(common.VERIF, "contract/schemas.json")) as fh:
            _CONTRACT = json.load(fh)
    return _CONTRACT


def modules():
    return [m["module"] for m in contract()["modules"]]


def record_specs():
    """[(module, letter, spec)]"""
    out = []
    for m in contract()["modules"]:
        for rec in m["records"]:
            out.append((m["module"], rec["letter"], rec))
    return out


def real_class(module, letter):
    if module == "generic":
        from senaite.astm import wrapper
        return wrapper.DEFAULT_MAPPING.get(letter)
    mod = importlib.import_module("senaite.astm.instruments." + module)
    return mod.get_mapping().get(letter)


TEXT_ALPHA = [chr(c) for c in list(range(0x20, 0x7f)) + list(range(0xa0, 0x100)) if chr(c) not in "|\\^&"]
# control characters are ordinary field text (only | \\ ^ & CR are special): line separators of str/bytes.splitlines, TAB, NUL
TEXT_CTRL = [chr(c) for c in (10, 11, 12, 0x1c, 0x1d, 0x1e, 0x85, 9, 0, 0x7f)]


SPECIAL_TEXTS = ['""', "''", "null", "None", "NULL", "-", "0", "nan", "{}", "[]", "[1, 2]", "false", " ",
                 # fixed-width padding is part of the text; latin-1 text whose bytes happen to be well-formed UTF-8
                 # escape sequences of E1394 are text for this package (nothing is unescaped)
                 "&X41&", "OP&X41&1", "a&X0D0A&b", "&R&", "a&F&b", "&E&", "&&",
                 "  7", "7  ", " a ", "   ", "\u00c2\u00b5mol/L", "\u00c3\u00a9", "caf\u00c3\u00a9 \u00c2\u00b0C"]


MODE = [None]      # "utf8ish": ASCII text plus latin-1 text whose bytes are well-formed UTF-8 (and nothing else non-ASCII)
UTF8ISH = ["\u00c2\u00b5mol/L", "\u00c3\u00a9", "caf\u00c3\u00a9", "\u00c2\u00b0C", "plain", "A1", "x y", "7.5"]


def rand_text(r, maxlen=None):
    if MODE[0] == "utf8ish":
        t = r.choice(UTF8ISH)
        return t if maxlen is None or len(t) <= maxlen else "a"[:maxlen]
    if r.random() < 0.07:
        t = r.choice(SPECIAL_TEXTS)        # text that a program might mistake for "no value" or for structure
        if maxlen is None or len(t) <= maxlen:
            return t
    n = r.choice([1, 1, 2, 3, 6, 12])
    if maxlen is not None:
        n = min(n, maxlen) if maxlen > 0 else 0
    return "".join(r.choice(TEXT_CTRL) if r.random() < 0.04 else r.choice(TEXT_ALPHA) for _ in range(n))


def valid_date(r):
    y = r.choice([1, 999, 1900, 1999, 2000, 2023, 2024, 9999, 2100, 2400, 1600])
    m = r.randrange(1, 13)
    dim = [31, 29 if (y % 4 == 0 and y % 100 != 0) or y % 400 == 0 else 28, 31, 30, 31, 30, 31, 31, 30, 31, 30, 31][m - 1]
    d = r.choice([1, dim, r.randrange(1, dim + 1)])
    return "%04d%02d%02d" % (y, m, d)


def valid_time(r, seconds=True):
    t = "%02d%02d" % (r.choice([0, 23, r.randrange(24)]), r.choice([0, 59, r.randrange(60)]))
    return t + ("%02d" % r.choice([0, 59, r.randrange(60)]) if seconds else "")


def admissible(r, sp):
    """(wire text or None, expectation) for a scalar spec; expectation = ('eq', str) | ('int', int) | ('none',) | ('any',)"""
    k = sp["kind"]
    if k in ("text", "plain"):
        v = rand_text(r, sp["length"])
        if sp["length"] is not None and sp["length"] >= 3 and r.random() < 0.3:
            # fixed-width instruments pad their values; the padding belongs to the wire element
            core = "".join(r.choice("AB19x") for _ in range(r.randrange(0, sp["length"] - 1)))
            room = sp["length"] - len(core)
            a = r.randrange(0, room + 1)
            v = " " * a + core + " " * r.randrange(0, room - a + 1)
        return (v or None), (("eq", v) if v else ("default",))
    if k == "notUsed":
        v = rand_text(r)
        return (v or None), ("none",)
    if k == "integer":
        n = r.choice([0, 1, 7, 12, 999, r.randrange(0, 100000), r.randrange(0, 100000), 9007199254740993, 20241206000003643,
                      10 ** 22 + 1])
        txt = r.choice(["%d", "%d", "%d", "0%d", " %d", "%d ", "+%d"]) % n
        if sp["length"] is not None and len(str(n)) > sp["length"]:
            n, txt = 1, "1"
        return txt, ("eq", str(n))
    if k == "date":
        v = valid_date(r)
        return v, ("eq", v)
    if k == "datetime":
        sec = r.random() < 0.7
        v = valid_date(r) + valid_time(r, sec)
        return v, ("eq", v if sec else v + "00")
    if k == "time":
        sec = r.random() < 0.7
        v = valid_time(r, sec)
        return v, ("eq", v if sec else v + "00")
    if k == "constant":
        c = sp["constant"]
        if c.startswith("s:") and r.random() < 0.7:
            return (c[2:] or None), ("eq", c[2:])
        if c.startswith("i:") and sp["inner"] == "integer" and r.random() < 0.7:
            return r.choice(["%s", "0%s", " %s"]) % c[2:], ("eq", c[2:])
        return None, ("eq", c[2:])
    if k == "set":
        if sp["values"] and r.random() < 0.8:
            v = r.choice(sp["values"])
            return v[2:], ("eq", v[2:])
        return None, ("default",)
    if k == "jsonList":
        # the text of such a field is one list element, also when it happens to look like JSON itself
        v = r.choice([rand_text(r), rand_text(r), "[1]", "[]", "[12, 5]", " [0] ", "{}", "null", "12", '"q"'])
        return (v or None), ("json1", v)
    return None, ("any",)


def gen_record(r, spec, fill=0.6):
    """a conformant wire record for the record spec; returns (raw bytes, planted)
    planted: list per field of ('scalar', exp) | ('comp', [exp...]) | ('rep', [[exp...]...]) | ('absent',)"""
    fields = []
    planted = []
    for i, f in enumerate(spec["fields"]):
        if i == 0:
            fields.append(spec["letter"])
            planted.append(("scalar", ("eq", spec["letter"])))
            continue
        if r.random() > fill:
            fields.append("")
            planted.append(("absent",))
            continue
        if f["shape"] == "scalar":
            txt, exp = admissible(r, f["scalar"])
            fields.append(txt or "")
            planted.append(("scalar", exp) if txt else ("absent",))
        elif f["shape"] == "component":
            items, exps = gen_component(r, f["sub"])
            if not any(items):
                fields.append("")
                planted.append(("absent",))
            else:
                fields.append("^".join(x or "" for x in items))
                planted.append(("comp", exps, len(items)))
        else:
            occ = r.choice([0, 1, 1, 2, 3])
            comps = []
            expss = []
            for _ in range(occ):
                items, exps = gen_component(r, f["sub"], force=True)
                comps.append("^".join(x or "" for x in items))
                expss.append((exps, len(items)))
            if occ == 0 or "\\".join(comps) == "":
                fields.append("")
                planted.append(("absent",))
            else:
                fields.append("\\".join(comps))
                planted.append(("rep", expss))
    while fields and fields[-1] == "" and r.random() < 0.7:
        fields.pop()
        # planted keeps its length: trailing fields are simply absent
    raw = "|".join(fields).encode("latin-1")
    return raw, planted


def gen_component(r, subs, force=False):
    n = r.randrange(1, len(subs) + 1) if subs else 0
    items, exps = [], []
    for j in range(n):
        if r.random() < 0.7 or (force and j == n - 1):
            txt, exp = admissible(r, subs[j])
            items.append(txt)
            exps.append(exp if txt else ("default",))
        else:
            items.append(None)
            exps.append(("default",))
    # the decoder strips nothing, but a trailing empty item would still be an (absent) item
    while items and items[-1] is None:
        items.pop()
        exps.pop()
    if force and not items and subs:
        txt, exp = admissible(r, subs[0])
        if txt:
            items, exps = [txt], [exp]
    return items, exps


def check_expect(exp, got, where):
    if exp[0] == "eq":
        if got != exp[1]:
            return "%s: value %r, wire element was %r" % (where, got, exp[1])
    elif exp[0] == "none":
        if got is not None:
            return "%s: unused field stores %r" % (where, got)
    elif exp[0] == "json1":
        # a JSON list field holds the wire text as the single element of a JSON list
        try:
            val = json.loads(got)
        except Exception:
            return "%s: a JSON list field holds %r, not JSON" % (where, got)
        if val != [exp[1]]:
            return "%s: JSON list field holds %r, the wire text was %r (expected the one-element list of it)" % (where, got, exp[1])
    return None


def positional_oracle(spec, planted, d):
    """`d` = to_dict() of the wrapped record; the contract names in wire order, each planted value back at its coordinates"""
    names = [f["name"] for f in spec["fields"]]
    if list(d.keys()) != names:
        return "keys", "dictionary keys %r differ from the declared names in wire order %r" % (list(d.keys())[:8], names[:8])
    try:
        json.dumps(d)
    except Exception as e:  # noqa
        return "not-json", "the dictionary is not JSON serialisable (%s)" % e
    for f, p in zip(spec["fields"], planted):
        got = d[f["name"]]
        if p[0] == "scalar":
            bad = check_expect(p[1], got, f["name"])
            if bad:
                return "value", bad
        elif p[0] == "comp":
            if not isinstance(got, dict) or list(got.keys()) != [s["name"] for s in f["sub"]]:
                return "sub-keys", "%s: component keys %r differ from the declared sub-field names" % (f["name"], got)
            for s, e in zip(f["sub"], p[1]):
                bad = check_expect(e, got[s["name"]], "%s.%s" % (f["name"], s["name"]))
                if bad:
                    return "sub-value", bad
        elif p[0] == "rep":
            if not isinstance(got, list) or len(got) != len(p[1]):
                return "occurrences", "%s: %d occurrences on the wire, %r in the dictionary" % (
                    f["name"], len(p[1]), got if not isinstance(got, list) else len(got))
            for k, (occ, (exps, n)) in enumerate(zip(got, p[1])):
                if list(occ.keys()) != [s["name"] for s in f["sub"]]:
                    return "sub-keys", "%s[%d]: occurrence keys differ from the declared sub-field names" % (f["name"], k)
                for s, e in zip(f["sub"], exps):
                    bad = check_expect(e, occ[s["name"]], "%s[%d].%s" % (f["name"], k, s["name"]))
                    if bad:
                        return "sub-value", bad
    return None


# ---------------------------------------------------------------------------------------------
# model bridge
# ---------------------------------------------------------------------------------------------

def dict_wire(d):
    """to_dict() result in the driver's output syntax"""
    def v(x):
        if x is None:
            return "n"
        return "t" + codecio.cps(x) if isinstance(x, str) else "?" + repr(x).replace(" ", "_")
    parts = []
    for k, val in d.items():
        if isinstance(val, dict):
            parts.append("%s:c(%s)" % (k, ",".join("%s=%s" % (a, v(b)) for a, b in val.items())))
        elif isinstance(val, list):
            parts.append("%s:r(%s)" % (k, ";".join(",".join("%s=%s" % (a, v(b)) for a, b in occ.items()) for occ in val)))
        else:
            parts.append("%s:%s" % (k, v(val)))
    return " ".join(parts)


def wrap_impl(cls, raw):
    from senaite.astm import codec
    rec = codec.decode_record(raw)
    try:
        return True, cls(*rec).to_dict(), rec
    except Exception as e:  # noqa
        return False, type(e).__name__, rec


def model_wrap_line(module, letter, now, rec):
    return "wrap %s %s %s %s" % (module, letter, codecio.cps(now) or "", codecio.record_wire(rec))


# ---------------------------------------------------------------------------------------------
# parsing the driver's dictionary syntax back into Python values
# ---------------------------------------------------------------------------------------------

def _pv(tok):
    if tok == "n":
        return None
    if tok.startswith("t"):
        body = tok[1:]
        return "".join(chr(int(x)) for x in body.split(".")) if body else ""
    raise ValueError(tok)


def _pkvs(s):
    out = {}
    if not s:
        return out
    for kv in s.split(","):
        k, v = kv.split("=", 1)
        out[k] = _pv(v)
    return out


def parse_dict_wire(s):
    """inverse of dict_wire"""
    out = {}
    for part in s.split(" "):
        if not part:
            continue
        k, v = part.split(":", 1)
        if v.startswith("c(") and v.endswith(")"):
            out[k] = _pkvs(v[2:-1])
        elif v.startswith("r(") and v.endswith(")"):
            inner = v[2:-1]
            out[k] = [_pkvs(x) for x in inner.split(";")] if inner else []
        else:
            out[k] = _pv(v)
    return out


def parse_json_doc(line):
    """driver `tojson` output -> python dict shaped like Wrapper.to_dict()"""
    assert line.startswith("ok ")
    parts = line[3:].split(" ## ")
    head = parts[0].split(" ")
    astm = common.unhex(head[0][2:]).decode("latin-1")
    lis = common.unhex(head[1][2:]).decode("latin-1")
    doc = {"metadata": {"astm": astm, "lis2a": lis}}
    for b in parts[1:]:
        letter, rest = b.split(" => ", 1)
        doc[letter] = [parse_dict_wire(x) for x in rest.split(" ~~ ")]
    return doc
