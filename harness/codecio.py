# -*- coding: utf-8 -*-
"""codec.py adapters: tree <-> line-protocol syntax, implementation wrappers, tree generators."""
from harness.common import hexb

ENCODINGS = ["latin-1", "utf-8", "cp1251", "ascii"]


def cps(s):
    return ".".join(str(ord(c)) for c in s)


def leaf_wire(x):
    if x is None:
        return "n"
    if isinstance(x, str):
        return "t" + cps(x)
    if isinstance(x, bytes):
        return "b" + x.hex()
    if isinstance(x, int) and not isinstance(x, bool):
        return "i%d" % x
    if isinstance(x, (bool, float)) or type(x).__name__ == "Decimal":
        # any other scalar is written as its str(): for the model it is that text
        return "t" + cps(str(x))
    return "x(" + repr(x).replace(" ", "_")[:100] + ")"


def field_wire(f):
    if isinstance(f, list):
        if f and all(isinstance(x, list) for x in f):
            return "r(" + ";".join(",".join(leaf_wire(y) for y in x) for x in f) + ")"
        if any(isinstance(x, list) for x in f):
            return "x(" + repr(f).replace(" ", "_")[:200] + ")"       # not a value the decoder can produce
        return "c(" + ",".join(leaf_wire(x) for x in f) + ")"
    return leaf_wire(f)


def record_wire(r):
    return "|".join(field_wire(f) for f in r) if r else "e"


def records_wire(rs):
    return "/".join(record_wire(r) for r in rs) if rs else "-"


def ok_or_err(fn, *a, **kw):
    try:
        return True, fn(*a, **kw)
    except Exception as e:  # noqa
        return False, type(e).__name__


def impl_line(kind, enc, *args):
    """run the implementation; result in the driver's output syntax (errors reduced to 'err')"""
    from senaite.astm import codec
    if kind == "dm":
        ok, r = ok_or_err(codec.decode_message, args[0], enc)
        ok_k, r_k = ok_or_err(lambda: codec.decode_message(args[0], encoding=enc))
        if (ok, r if ok else None) != (ok_k, r_k if ok_k else None):
            return "ok? keyword-and-positional-encoding-differ"
        return "ok %d %s %s" % (r[0], hexb(r[2].encode("latin-1")), records_wire(r[1])) if ok else "err"
    if kind == "dec":
        ok, r = ok_or_err(codec.decode, args[0], enc)
        return "ok %s" % records_wire(r) if ok else "err"
    if kind == "df":
        ok, r = ok_or_err(codec.decode_frame, args[0], enc)
        return "ok %d %s" % (r[0], records_wire(r[1])) if ok else "err"
    if kind == "dr":
        ok, r = ok_or_err(codec.decode_record, args[0], enc)
        # the same call with the encoding given by keyword
        ok_k, r_k = ok_or_err(lambda: codec.decode_record(args[0], encoding=enc))
        if (ok, r if ok else None) != (ok_k, r_k if ok_k else None):
            return "ok? keyword-and-positional-encoding-differ %r / %r" % (r, r_k)
        return "ok %s" % record_wire(r) if ok else "err"
    if kind == "er":
        ok, r = ok_or_err(codec.encode_record, args[0], enc)
        return "ok %s" % hexb(r) if ok else "err"
    if kind == "em":
        ok, r = ok_or_err(codec.encode_message, args[0], args[1], enc)
        return "ok %s" % hexb(r) if ok else "err"
    if kind == "enc":
        ok, r = ok_or_err(lambda: codec.encode(args[2], enc, args[0], args[1]))
        return "ok %s" % " ".join(hexb(x) for x in r) if ok else "err"
    if kind == "ienc":
        ok, r = ok_or_err(lambda: list(codec.iter_encode(args[2], enc, args[0], args[1])))
        return "ok %s" % " ".join(hexb(x) for x in r) if ok else "err"
    raise ValueError(kind)


def model_line(kind, enc, *args):
    if kind in ("dm", "dec", "df", "dr"):
        return "%s %s %s" % (kind, enc, hexb(args[0]))
    if kind == "er":
        return "er %s %s" % (enc, record_wire(args[0]))
    if kind == "em":
        return "em %s %d %s" % (enc, args[0], records_wire(args[1]))
    if kind in ("enc", "ienc"):
        return "%s %s %s %d %s" % (kind, enc, "-" if args[0] is None else args[0], args[1], records_wire(args[2]))
    raise ValueError(kind)


def canon_model(line):
    return "err" if line.startswith("err ") else line


# ---------------------------------------------------------------------------------------------
# generators
# ---------------------------------------------------------------------------------------------

DELIMS = "|\\^\r"        # (the escape character & is ordinary text for the codec)
# framing controls and line separators are ordinary text for the record grammar (only | \\ ^ CR are special)
CTRL = [2, 3, 0x17, 10, 11, 12, 0x1c, 0x1d, 0x1e]
ALPHABETS = {
    "latin-1": [chr(c) for c in list(range(0x20, 0x7f)) + list(range(0xa0, 0x100)) + [0, 1, 9, 0x7f, 0x80, 0x9f] + CTRL + [0x85]],
    "ascii": [chr(c) for c in list(range(0x20, 0x7f)) + [0, 1, 9, 0x7f] + CTRL],
    "utf-8": [chr(c) for c in list(range(0x20, 0x7f)) + [0xe9, 0x3b1, 0x416, 0x20ac, 0x4e2d, 0x1f600, 0x80, 0x7ff, 0x800, 0xffff]
              + CTRL + [0x85, 0x2028]
              # legal text that is not in a Unicode normal form: OHM SIGN, ANGSTROM SIGN, combining marks, a ligature
              + [0x2126, 0x212b, 0x301, 0x344, 0x1e9b, 0xfb01, 0x3a9]],
    "cp1251": [chr(c) for c in list(range(0x20, 0x7f)) + list(range(0x410, 0x450)) + [0x401, 0x451, 0x20ac, 0xa0, 0xb5] + CTRL],
}


ESCAPE_LOOKING = ["R&F&D", "a&S&b", "&E&", "&R&", "&", "&&", "Smith &E& Sons", "&X41&", "&F&&S&"]


def text(rng, enc, n=None, allow_delims=False):
    if n is None and rng.random() < 0.03:
        return rng.choice(ESCAPE_LOOKING)        # text that looks like an E1394 escape sequence is text
    n = rng.choice([1, 1, 2, 3, 5, 9]) if n is None else n
    alpha = ALPHABETS[enc]
    out = []
    while len(out) < n:
        c = rng.choice(alpha)
        if not allow_delims and c in DELIMS:
            continue
        out.append(c)
    return "".join(out)


def canonical_component(rng, enc, in_repeat=False):
    """components: list of text/None; outside repeats at least 2 long; last element non-null
    (inside repeats the single element [None] is canonical too)"""
    if in_repeat and rng.random() < 0.2:
        return [None]
    n = rng.choice([1, 2, 3, 5]) if in_repeat else rng.choice([2, 2, 3, 5])
    items = [text(rng, enc) if rng.random() < 0.7 else None for _ in range(n - 1)]
    items.append(text(rng, enc))
    return items


def canonical_field(rng, enc):
    k = rng.random()
    if k < 0.2:
        return None
    if k < 0.6:
        return text(rng, enc)
    if k < 0.8:
        return canonical_component(rng, enc)
    return [canonical_component(rng, enc, True) for _ in range(rng.choice([2, 2, 3]))]


def canonical_record(rng, enc, nfields=None):
    n = rng.choice([1, 2, 3, 5, 8]) if nfields is None else nfields
    return [canonical_field(rng, enc) for _ in range(n)]


def canonical_records(rng, enc):
    return [canonical_record(rng, enc) for _ in range(rng.choice([1, 1, 2, 3]))]


UNENCODABLE = {"latin-1": "\u20ac", "ascii": "\xe9", "cp1251": "\xe9", "utf-8": "\ud800"}


def failing_encode(rng, enc):
    """an encode call that is refused part-way (a text the encoding cannot represent after some fields were already
    written); whatever it leaves behind must not leak into later calls"""
    from senaite.astm import codec
    rec = ["R", "2", [None, None, "CREA"], "88", UNENCODABLE[enc], "tail"]
    for fn in (lambda: codec.encode_record(rec, enc), lambda: codec.encode_message(2, [["H"], rec], enc),
               lambda: codec.encode([rec], enc)):
        if rng.random() < 0.6:
            try:
                fn()
            except Exception:
                pass


def encodable_in(records, enc):
    try:
        "".join(leaf_chars(f) for r in records for f in r).encode(enc)
        return True
    except Exception:
        return False


def no_framing(x, keep_etx=False):
    """the same tree with the framing controls STX ETX ETB replaced (E1381 excludes them from frame text; chunk
    classification looks for ETB).  keep_etx: an ETX inside the text stays (nothing looks for it there)"""
    if isinstance(x, str):
        x = x.replace("\x02", "x").replace("\x17", "z")
        return x if keep_etx else x.replace("\x03", "y")
    if isinstance(x, list):
        return [no_framing(y, keep_etx) for y in x]
    return x


def is_rich(records):
    """non-trivial: has components or repeats and a non-ASCII character"""
    flat = repr(records)
    has_struct = any(isinstance(f, list) for r in records for f in r)
    return has_struct and any(ord(c) > 127 for r in records for f in r for c in leaf_chars(f))


def leaf_chars(f):
    if f is None:
        return ""
    if isinstance(f, str):
        return f
    if isinstance(f, list):
        return "".join(leaf_chars(x) for x in f)
    return ""
