# -*- coding: utf-8 -*-
"""Property oracles, phrased on observable behaviour only and written independently of both the
implementation and the Lean model (they are the executable reading of the property statements,
used by the failing-input search and evaluated on every implementation trace)."""
from harness.gens import checksum

CTRL = {5: "ENQ", 6: "ACK", 0x15: "NAK", 4: "EOT", 2: "STX"}


def checksum_ok(m):
    """the two checksum characters at the end (before trailing CR/LF) equal, case-insensitively, the
    modulo-256 sum of all bytes between the first byte and the checksum (which must be non-empty)"""
    m = m.rstrip(b"\r\n")
    if len(m) < 4:
        return False
    return m[-2:].upper() == checksum(m[1:-2])


def is_intermediate(m):
    """a frame whose text is terminated by ETB followed by checksum CR LF (first ETB five bytes before the end)"""
    return len(m) >= 5 and 0x17 in m and m.index(0x17) == len(m) - 5


def kind(d):
    if not d:
        return "other"
    return CTRL.get(d[0], "other")


def merge(run):
    """merge the frames of a multi-frame run into a single frame numbered 1 with a correct checksum"""
    item = b"1" + b"".join(c[2:-5] for c in run) + b"\x03"
    return b"\x02" + item + checksum(item) + b"\r\n"


def assemble(frames):
    msgs, run = [], []
    for f in frames:
        if is_intermediate(f):
            run.append(f)
        elif run:
            msgs.append(merge(run + [f]))
            run = []
        else:
            msgs.append(f)
    return msgs, run


def render_text(fmt, msgs):
    """expected 'astm' / 'lis2a' payloads as latin-1 bytes (None = rendering must fail)"""
    if fmt == "astm":
        return b"\n".join(msgs)
    out = b""
    for m in msgs:
        s = m.rstrip(b"\r\n")[1:-2]
        if not (s[:1].isdigit() and s[:1].isascii()):
            return None
        out += s[1:]
    return out


class RefReceiver(object):
    """declarative reading of C01-C03: what a connection must answer and deliver.
    `vendor(d)` says whether a unit is a vendor line (those are excluded from C01-C03 histories)."""

    def __init__(self, fmt):
        self.fmt = fmt
        self.acked = None      # None = idle; list of ACKed frames of the open transfer

    def expect(self, ev):
        """returns dict(reply=None|'ACK'|'NAK', exc=None|'NotAccepted'|'InvalidState'|'Error'|'maybe',
        closes=int, deliver=None|('text', bytes)|('json', [msgs]))"""
        exp = {"reply": None, "exc": None, "closes": 0, "deliver": None}
        if ev[0] in ("T", "L"):
            self.acked = None
            exp["closes"] = 1
            return exp
        d = ev[1]
        k = kind(d)
        if k == "ENQ":
            if self.acked is None:
                self.acked = []
                exp["reply"] = "ACK"
            else:
                exp["reply"] = "NAK"
        elif k in ("ACK", "NAK"):
            exp["exc"] = "NotAccepted"
        elif k == "EOT":
            if self.acked is None:
                exp["exc"] = "InvalidState"
                exp["closes"] = 1
            else:
                msgs, _run = assemble(self.acked)
                self.acked = None
                if msgs:
                    if self.fmt == "astm":
                        exp["deliver"] = ("text", render_text("astm", msgs))
                    elif self.fmt == "json":
                        exp["deliver"] = ("json", msgs)
                    else:
                        t = render_text("lis2a", msgs)
                        if t is None:
                            exp["exc"] = "Error"
                        else:
                            exp["deliver"] = ("text", t)
        elif k == "STX":
            if self.acked is None:
                exp["reply"] = "NAK"
            elif checksum_ok(d):
                self.acked.append(d)
                exp["reply"] = "ACK"
            else:
                exp["reply"] = "NAK"
        return exp


def observe_matches(exp, obs, to_json=None):
    """compare an expectation with an observation of the implementation; returns None or a reason"""
    reply = None
    if len(obs["writes"]) > 1:
        return "more than one reply to a single unit: %r" % obs["writes"]
    if obs["writes"]:
        reply = {b"\x06": "ACK", b"\x15": "NAK"}.get(obs["writes"][0], repr(obs["writes"][0]))
    if reply != exp["reply"]:
        return "reply %s, expected %s" % (reply, exp["reply"])
    deliver = exp["deliver"]
    exp_exc = exp["exc"]
    if deliver is not None and deliver[0] == "json":
        try:
            item = to_json(deliver[1])
            deliver = ("raw", item)
        except Exception:
            deliver = None
            exp_exc = "Error"
    if obs["exc"] != exp_exc:
        return "exception %s, expected %s" % (obs["exc"], exp_exc)
    if obs["closes"] != exp["closes"]:
        return "transport.close() called %d times, expected %d" % (obs["closes"], exp["closes"])
    got = obs["delivered"]
    if deliver is None:
        if got:
            return "unexpected delivery %r" % (got,)
    else:
        if len(got) != 1:
            return "%d items delivered, expected exactly one" % len(got)
        item = got[0]
        if deliver[0] == "text":
            if not isinstance(item, str) or item.encode("latin-1", "replace") != deliver[1] \
                    or any(ord(c) > 255 for c in item):
                return "delivered payload differs from the acknowledged bytes"
        else:
            if item != deliver[1] and not json_equal_mod_now(item, deliver[1]):
                return "delivered json payload differs from the rendering of the acknowledged messages"
    return None


def mask_now_json(text):
    """a json payload with every header timestamp that defaulted to `datetime.now()` (i.e. lies within ten minutes of
    now) replaced by a marker, re-serialised canonically; anything that is not json is returned as it is"""
    import json
    import datetime
    if not isinstance(text, str) or not text.startswith("{"):
        return text
    try:
        doc = json.loads(text)
    except Exception:
        return text
    now = datetime.datetime.now()

    def walk(x, key=None):
        if isinstance(x, dict):
            return {k: walk(v, k) for k, v in x.items()}
        if isinstance(x, list):
            return [walk(v, key) for v in x]
        if key == "timestamp" and isinstance(x, str):
            try:
                if abs((datetime.datetime.strptime(x, "%Y%m%d%H%M%S") - now).total_seconds()) <= 600:
                    return "<now>"
            except Exception:
                pass
        return x
    return json.dumps(walk(doc), sort_keys=True)


def json_equal_mod_now(a, b):
    """two json payloads are equal up to a header timestamp that defaulted to `datetime.now()` at rendering
    time (records.HeaderRecord declares default=datetime.now; timestamps are never compared)"""
    import json
    import datetime
    try:
        ja, jb = json.loads(a), json.loads(b)
    except Exception:
        return False

    def close(x, y):
        try:
            dx = datetime.datetime.strptime(x, "%Y%m%d%H%M%S")
            dy = datetime.datetime.strptime(y, "%Y%m%d%H%M%S")
        except Exception:
            return False
        return abs((dx - dy).total_seconds()) <= 120 and abs((dx - datetime.datetime.now()).total_seconds()) <= 600

    def eq(x, y, key=None):
        if isinstance(x, dict) and isinstance(y, dict):
            return x.keys() == y.keys() and all(eq(x[k], y[k], k) for k in x)
        if isinstance(x, list) and isinstance(y, list):
            return len(x) == len(y) and all(eq(p, q, key) for p, q in zip(x, y))
        if x == y:
            return True
        return key == "timestamp" and isinstance(x, str) and isinstance(y, str) and close(x, y)
    return eq(ja, jb)
